package main

// C18 implementation-side oracles (S).  They state the property directly on the real code:
//   alias  : no argument array (over its whole array, spare capacity included) changes; site-specific clauses
//   flist  : the stream holds the encodings of the values written, reads return the decoding of what was consumed
//   tx     : Copy() is equal and independent (mutate-the-copy / mutate-the-original over every byte slice),
//            and every read-only method leaves a transaction with sentinel capacities untouched
//   c18fn  : sentinel-capacity sweep of the exported functions that only read their []byte / key / packet
//            arguments, repeat-call determinism with other calls in between, package-level values
//            unchanged and not reachable for writing through results
//   c18race: concurrent read-only calls under the race detector (separate binary)

import (
	"bufio"
	"bytes"
	"encoding/binary"
	"encoding/json"
	"fmt"
	"os"
	"os/exec"
	"path/filepath"
	"sort"
	"strings"
	"sync"
	"time"

	"github.com/btcsuite/btcd/btcec/v2"
	"github.com/btcsuite/btcd/btcutil/psbt"
	"github.com/btcsuite/btcd/chaincfg/chainhash"
	"github.com/btcsuite/btcd/txscript"
	"github.com/vulpemventures/go-elements/address"
	"github.com/vulpemventures/go-elements/blech32"
	"github.com/vulpemventures/go-elements/confidential"
	"github.com/vulpemventures/go-elements/descriptor"
	"github.com/vulpemventures/go-elements/elementsutil"
	"github.com/vulpemventures/go-elements/network"
	"github.com/vulpemventures/go-elements/payment"
	"github.com/vulpemventures/go-elements/pset"
	"github.com/vulpemventures/go-elements/psetv2"
	"github.com/vulpemventures/go-elements/slip77"
	"github.com/vulpemventures/go-elements/taproot"
	"github.com/vulpemventures/go-elements/transaction"
)

// ---------- guard: arguments as sub-slices of sentinel arrays, compared over the whole array ----------

type c18Guard struct {
	r     *Rng
	names []string
	arrs  [][]byte
	snaps [][]byte
	extra []func() string // further before/after observers (packets, keys)
	exval []string
}

func newC18Guard(r *Rng) *c18Guard { return &c18Guard{r: r} }

// b embeds body in a larger array (0..3 bytes in front, spare capacity 0/1/k behind, sentinels 0xA5)
func (g *c18Guard) b(name string, body []byte) []byte {
	if len(body) == 0 && g.r.Chance(50) {
		if g.r.Bool() {
			return nil
		}
		return []byte{}
	}
	off := g.r.Intn(4)
	spare := g.r.Pick(0, 1, 12, 32, 33, 64, 70)
	extra := g.r.Intn(3)
	arr := bytes.Repeat([]byte{0xa5}, off+len(body)+spare+extra)
	copy(arr[off:], body)
	g.names = append(g.names, name)
	g.arrs = append(g.arrs, arr)
	g.snaps = append(g.snaps, append([]byte(nil), arr...))
	return arr[off : off+len(body) : off+len(body)+spare]
}

func (g *c18Guard) bl(name string, l [][]byte) [][]byte {
	out := make([][]byte, len(l), len(l)+2) // the list itself has spare capacity too
	for i, x := range l {
		out[i] = g.b(fmt.Sprintf("%s[%d]", name, i), x)
	}
	g.watch(name+".headers", func() string { return fmt.Sprint(len(out), c18Lens(out[:cap(out)])) })
	return out
}

func c18Lens(l [][]byte) []int {
	var o []int
	for _, x := range l {
		o = append(o, len(x))
	}
	return o
}

func (g *c18Guard) watch(name string, f func() string) {
	g.extra = append(g.extra, func() string { return name + "=" + f() })
	g.exval = append(g.exval, name+"="+f())
}

// changed returns the name of the first argument that is not what it was, or ""
func (g *c18Guard) changed() string {
	for i := range g.arrs {
		if !bytes.Equal(g.arrs[i], g.snaps[i]) {
			return g.names[i]
		}
	}
	for i, f := range g.extra {
		if f() != g.exval[i] {
			return strings.SplitN(g.exval[i], "=", 2)[0]
		}
	}
	return ""
}

func c18JSON(v interface{}) string {
	b, err := json.Marshal(v)
	if err != nil {
		return "json-error:" + err.Error()
	}
	return string(b)
}

// ---------- S on the alias family ----------

func checkC18Alias(t *Toks) string {
	line := t.line
	site := t.l[0]
	g0 := alHexs(alGlobals())
	res := safeRun(runAlias, t)
	if alHexs(alGlobals()) != g0 {
		return fail("globals", site)
	}
	if res == "panic" {
		// a panic is C12's business; here only sites whose model also panics reach this (out-of-range slicing)
		return "OK panic"
	}
	f := fieldsOf(res)
	if c, ok := f["chg"]; ok && c != "none" {
		for i, x := range strings.Split(c, ",") {
			if x != "-" {
				return fail("alias."+site, fmt.Sprintf("arg%d-array-changed-at-%s", i, strings.SplitN(x, ":", 2)[0]))
			}
		}
	}
	switch site {
	case "tapsig", "tapleaf":
		// every emitted pair is its own pubkey || leaf hash (script || version), whatever the arrays share
		tt := &Toks{l: strings.Split(line, " ")[2:], line: line}
		c := &alCtx{}
		k := tt.Int()
		var want []string
		for i := 0; i < k; i++ {
			a := c.slice(tt)
			if site == "tapsig" {
				b := c.slice(tt)
				want = append(want, hx(append(append([]byte{}, a...), b...)))
			} else {
				want = append(want, hx(append(append([]byte{}, a...), byte(tt.Int()))))
			}
		}
		if f["kd"] != strings.Join(want, ",") {
			return fail("alias.v2."+site, "emitted-pair-differs")
		}
	case "getutxo":
		if f["res"] == "ptr" {
			if f["same"] != "0" {
				return fail("getter.GetUtxo", "returns-stored-object")
			}
			tt := &Toks{l: strings.Split(line, " ")[6:], line: line}
			c := &alCtx{}
			stored, inrp := c.slice(tt), c.slice(tt)
			if f["rp"] != hx(inrp) {
				return fail("getter.GetUtxo", "range-proof-not-attached")
			}
			for _, s := range strings.Split(f["stored"], ",") {
				if s != hx(stored) {
					return fail("getter.GetUtxo", "stored-utxo-written")
				}
			}
		}
	case "copy":
		if f["cchg"] != "-" {
			return fail("copy.independent", "write-to-original-visible-in-copy")
		}
	case "rev":
		if f["alias"] == "1" && f["res"] != "-" {
			return fail("alias.ReverseBytes", "nonempty-result-aliases-argument")
		}
	}
	return "OK"
}

func fieldsOf(line string) map[string]string {
	d := map[string]string{}
	for _, tok := range strings.Split(line, " ") {
		if i := strings.Index(tok, "="); i >= 0 {
			d[tok[:i]] = tok[i+1:]
		}
	}
	return d
}

func checkC18Flist(t *Toks) string {
	line := t.line
	res := safeRun(runFlist, t)
	f := fieldsOf(res)
	tt := &Toks{l: strings.Split(line, " ")[1:], line: line}
	input := tt.Hex()
	k := tt.Int()
	var out []byte
	var rs []string
	for i := 0; i < k; i++ {
		o := tt.Next()
		n := int(o[1] - '0')
		if o[0] == 'p' {
			var v uint64
			fmt.Sscanf(tt.Next(), "%x", &v)
			var b [8]byte
			binary.LittleEndian.PutUint64(b[:], v)
			out = append(out, b[:n]...)
		} else {
			if len(input) >= n {
				var b [8]byte
				copy(b[:], input[:n])
				rs = append(rs, fmt.Sprintf("%x", binary.LittleEndian.Uint64(b[:])))
				input = input[n:]
			} else {
				rs = append(rs, "err")
				input = nil
			}
		}
	}
	if f["out"] != hx(out) {
		return fail("flist.emitted", "stream-is-not-the-encoding-of-the-values-written")
	}
	want := "none"
	if len(rs) > 0 {
		want = strings.Join(rs, ",")
	}
	if f["res"] != want {
		return fail("flist.read", "value-is-not-the-decoding-of-the-bytes-consumed")
	}
	if f["fl"] != "0" && f["fl"] != "1" {
		return fail("flist.size", "sequential-use-left-"+f["fl"]+"-buffers")
	}
	return "OK"
}

// ---------- S on the tx family: Copy independence + read-only methods ----------

// c18Rehome rebuilds every byte slice of tx as a sub-slice of a sentinel array
func c18Rehome(g *c18Guard, tx *transaction.Transaction) {
	for i, in := range tx.Inputs {
		p := fmt.Sprintf("in%d.", i)
		in.Hash = g.b(p+"Hash", in.Hash)
		in.Script = g.b(p+"Script", in.Script)
		in.IssuanceRangeProof = g.b(p+"IssuanceRangeProof", in.IssuanceRangeProof)
		in.InflationRangeProof = g.b(p+"InflationRangeProof", in.InflationRangeProof)
		if in.Witness != nil {
			in.Witness = g.bl(p+"Witness", in.Witness)
		}
		if in.PeginWitness != nil {
			in.PeginWitness = g.bl(p+"PeginWitness", in.PeginWitness)
		}
		if is := in.Issuance; is != nil {
			is.AssetBlindingNonce = g.b(p+"iss.Nonce", is.AssetBlindingNonce)
			is.AssetEntropy = g.b(p+"iss.Entropy", is.AssetEntropy)
			is.AssetAmount = g.b(p+"iss.AssetAmount", is.AssetAmount)
			is.TokenAmount = g.b(p+"iss.TokenAmount", is.TokenAmount)
		}
	}
	for i, o := range tx.Outputs {
		p := fmt.Sprintf("out%d.", i)
		o.Asset = g.b(p+"Asset", o.Asset)
		o.Value = g.b(p+"Value", o.Value)
		o.Script = g.b(p+"Script", o.Script)
		o.Nonce = g.b(p+"Nonce", o.Nonce)
		o.RangeProof = g.b(p+"RangeProof", o.RangeProof)
		o.SurjectionProof = g.b(p+"SurjectionProof", o.SurjectionProof)
	}
}

// c18TxSlices lists pointers to every byte-slice header reachable from tx
func c18TxSlices(tx *transaction.Transaction) (out []*[]byte, names []string) {
	add := func(n string, p *[]byte) { out = append(out, p); names = append(names, n) }
	for i, in := range tx.Inputs {
		p := fmt.Sprintf("in%d.", i)
		add(p+"Hash", &in.Hash)
		add(p+"Script", &in.Script)
		add(p+"IssuanceRangeProof", &in.IssuanceRangeProof)
		add(p+"InflationRangeProof", &in.InflationRangeProof)
		for j := range in.Witness {
			add(fmt.Sprintf("%sWitness[%d]", p, j), &in.Witness[j])
		}
		for j := range in.PeginWitness {
			add(fmt.Sprintf("%sPeginWitness[%d]", p, j), &in.PeginWitness[j])
		}
		if is := in.Issuance; is != nil {
			add(p+"iss.Nonce", &is.AssetBlindingNonce)
			add(p+"iss.Entropy", &is.AssetEntropy)
			add(p+"iss.AssetAmount", &is.AssetAmount)
			add(p+"iss.TokenAmount", &is.TokenAmount)
		}
	}
	for i, o := range tx.Outputs {
		p := fmt.Sprintf("out%d.", i)
		add(p+"Asset", &o.Asset)
		add(p+"Value", &o.Value)
		add(p+"Script", &o.Script)
		add(p+"Nonce", &o.Nonce)
		add(p+"RangeProof", &o.RangeProof)
		add(p+"SurjectionProof", &o.SurjectionProof)
	}
	return
}

func c18Field(name string) string {
	if i := strings.Index(name, "."); i >= 0 {
		name = name[i+1:]
	}
	if i := strings.Index(name, "["); i >= 0 {
		name = name[:i]
	}
	return name
}

func checkC18Tx(t *Toks) string {
	tx := readTx(t)
	r := lineRng(t.line)
	g := newC18Guard(r)
	c18Rehome(g, tx)
	before := dumpTx(tx)
	ser0, err0 := tx.Serialize()

	// (b) Copy: equal, identically serialized ...
	cp := tx.Copy()
	if x := g.changed(); x != "" {
		return fail("readonly.Copy", c18Field(x))
	}
	if dumpTx(cp) != before {
		return fail("copy.equal", "fields-differ")
	}
	ser1, err1 := cp.Serialize()
	if (err0 == nil) != (err1 == nil) || !bytes.Equal(ser0, ser1) {
		return fail("copy.equal", "serialization-differs")
	}
	// ... and independent: flip every byte of every slice of the copy over its full capacity, one slice at a time
	cs, cn := c18TxSlices(cp)
	for i, p := range cs {
		full := (*p)[:cap(*p)]
		for j := range full {
			full[j] ^= 0xff
		}
		if x := g.changed(); x != "" || dumpTx(tx) != before {
			return fail("copy.independent", "write-to-copy-visible-in-original/"+c18Field(cn[i]))
		}
		for j := range full {
			full[j] ^= 0xff
		}
	}
	// appending to and replacing the copy's lists
	for i, in := range cp.Inputs {
		in.Witness = append(in.Witness, []byte{0xee})
		in.PeginWitness = append(in.PeginWitness, []byte{0xee})
		if len(in.Witness) > 1 {
			in.Witness[0] = []byte{0xdd}
		}
		if len(in.PeginWitness) > 1 {
			in.PeginWitness[0] = []byte{0xdd}
		}
		if in.Issuance != nil {
			in.Issuance.AssetAmount = []byte{0}
		}
		in.Index ^= 1
		if dumpTx(tx) != before {
			return fail("copy.independent", fmt.Sprintf("list-or-struct-shared/in%d", i))
		}
	}
	for _, o := range cp.Outputs {
		o.Script = []byte{0x6a}
	}
	cp.Inputs = append(cp.Inputs, transaction.NewTxInput(make([]byte, 32), 0))
	cp.Outputs = append(cp.Outputs, transaction.NewTxOutput([]byte{1}, []byte{0}, nil))
	if dumpTx(tx) != before || g.changed() != "" {
		return fail("copy.independent", "list-or-struct-shared")
	}
	// the other direction: a fresh copy must not see writes to the original
	cp2 := tx.Copy()
	d2 := dumpTx(cp2)
	os, on := c18TxSlices(tx)
	for i, p := range os {
		full := (*p)[:cap(*p)]
		for j := range full {
			full[j] ^= 0xff
		}
		if dumpTx(cp2) != d2 {
			return fail("copy.independent", "write-to-original-visible-in-copy/"+c18Field(on[i]))
		}
		for j := range full {
			full[j] ^= 0xff
		}
	}

	// parsing the serialization from a caller-owned buffer gives a value that shares nothing with it;
	// also with a non-empty range proof on the last output (the last field of a witness serialization)
	if err0 == nil {
		if x := c18BufferAll("NewTxFromBuffer", ser0); x != "" {
			return x
		}
		if n := len(tx.Outputs); n > 0 {
			v := tx.Copy()
			v.Outputs[n-1].RangeProof = r.Bytes(1 + r.Intn(40))
			if sv, err := v.Serialize(); err == nil {
				if x := c18BufferAll("NewTxFromBuffer", sv); x != "" {
					return x
				}
			}
		}
	}

	// (a) read-only methods on a transaction with sentinel capacities
	nin := len(tx.Inputs)
	script := g.b("prevoutScript", r.Bytes(r.Intn(30)))
	value := g.b("value", append([]byte{1}, r.Bytes(8)...))
	var scripts, assets, values [][]byte
	for i := 0; i < nin; i++ {
		scripts = append(scripts, r.Bytes(r.Intn(30)))
		assets = append(assets, append([]byte{1}, r.Bytes(32)...))
		values = append(values, append([]byte{1}, r.Bytes(8)...))
	}
	scripts, assets, values = g.bl("prevoutScripts", scripts), g.bl("prevoutAssets", assets), g.bl("prevoutValues", values)
	annex := g.b("annex", append([]byte{0x50}, r.Bytes(r.Intn(5))...))
	var genesis, leaf chainhash.Hash
	copy(genesis[:], r.Bytes(32))
	copy(leaf[:], r.Bytes(32))
	ht := txscript.SigHashType(hashTypes[r.Intn(len(hashTypes))])
	calls := []struct {
		name string
		f    func()
	}{
		{"Serialize", func() { tx.Serialize() }},
		{"ToHex", func() { tx.ToHex() }},
		{"TxHash", func() { tx.TxHash() }},
		{"WitnessHash", func() { tx.WitnessHash() }},
		{"HasWitness", func() { tx.HasWitness() }},
		{"Weight", func() {
			tx.Weight()
			tx.VirtualSize()
			tx.DiscountWeight()
			tx.DiscountVirtualSize()
			tx.SerializeSize(true, false)
		}},
		{"CountIssuances", func() { tx.CountIssuances() }},
		{"HashForSignature", func() {
			if nin > 0 {
				tx.HashForSignature(r.Intn(nin), script, ht)
			}
		}},
		{"HashForWitnessV0", func() {
			if nin > 0 {
				tx.HashForWitnessV0(r.Intn(nin), script, value, ht)
			}
		}},
		{"HashForWitnessV1", func() {
			if nin > 0 {
				tx.HashForWitnessV1(r.Intn(nin), scripts, assets, values, ht, &genesis, &leaf, annex)
				tx.HashForWitnessV1(r.Intn(nin), scripts, assets, values, ht, &genesis, nil, nil)
			}
		}},
	}
	for _, c := range calls {
		if p := guarded(c.f); p != nil {
			continue // panics on malformed values are C12's business
		}
		if x := g.changed(); x != "" {
			return fail("readonly."+c.name, c18Field(x))
		}
		if dumpTx(tx) != before {
			return fail("readonly."+c.name, "transaction-changed")
		}
	}
	// (c) repeat-call determinism across the other calls
	h1 := tx.TxHash()
	s1, _ := tx.Serialize()
	for _, c := range calls {
		guarded(c.f)
	}
	h2 := tx.TxHash()
	s2, _ := tx.Serialize()
	if h1 != h2 || !bytes.Equal(s1, s2) {
		return fail("repeat.tx", "result-differs-after-other-calls")
	}
	return "OK"
}

// ---------- c18fn: the catalogue of exported functions that only read their arguments ----------

type c18Fn struct {
	name   string
	nondet bool // result uses fresh randomness
	// run builds its arguments from g (deterministically from g.r), calls the function and returns a
	// printable result plus the result byte slices handed to the caller
	run func(g *c18Guard) (string, [][]byte)
}

var c18Seeds *seeds
var c18SeedsOnce sync.Once

func c18Scalar(r *Rng) []byte {
	b := r.Bytes(32)
	b[0] &= 0x7f
	if bvAllZero(b) {
		b[31] = 1
	}
	return b
}

func c18Catalogue() []c18Fn {
	c18SeedsOnce.Do(func() {
		c18Seeds = loadSeeds()
		sort.Strings(c18Seeds.psetV0B64) // the fixture walk ranges over maps: fix the order
		sort.Strings(c18Seeds.psetV2B64)
	})
	hex32 := func(g *c18Guard, n string) []byte { return g.b(n, g.r.Bytes(32)) }
	fns := []c18Fn{
		{"transaction.ComputeEntropy", false, func(g *c18Guard) (string, [][]byte) {
			r, err := transaction.ComputeEntropy(hex32(g, "inTxHash"), uint32(g.r.Intn(5)), hex32(g, "contractHash"))
			return fmt.Sprint(hx(r), err), [][]byte{r}
		}},
		{"transaction.ComputeAsset", false, func(g *c18Guard) (string, [][]byte) {
			r, err := transaction.ComputeAsset(hex32(g, "entropy"))
			return fmt.Sprint(hx(r), err), [][]byte{r}
		}},
		{"transaction.ComputeReissuanceToken", false, func(g *c18Guard) (string, [][]byte) {
			r, err := transaction.ComputeReissuanceToken(hex32(g, "entropy"), uint(g.r.Intn(2)))
			return fmt.Sprint(hx(r), err), [][]byte{r}
		}},
		{"transaction.NewTxIssuanceFromInput", false, func(g *c18Guard) (string, [][]byte) {
			in := &transaction.TxInput{Hash: hex32(g, "Hash"), Index: 1, Issuance: &transaction.TxIssuance{
				AssetBlindingNonce: g.b("nonce", make([]byte, 32)), AssetEntropy: hex32(g, "entropy"),
				AssetAmount: g.b("amount", []byte{1, 0, 0, 0, 0, 0, 0, 0, 9}), TokenAmount: g.b("token", []byte{0})}}
			x, err := transaction.NewTxIssuanceFromInput(in)
			if err != nil {
				return "err", nil
			}
			a, _ := x.GenerateAsset()
			k, _ := x.GenerateReissuanceToken(0)
			return hx(a) + hx(k), [][]byte{a, k}
		}},
		{"transaction.NewTxFromBuffer", false, func(g *c18Guard) (string, [][]byte) {
			tx := genV0Tx(g.r)
			ser, _ := tx.Serialize()
			buf := g.b("buf", ser)
			p, err := transaction.NewTxFromBuffer(bytes.NewBuffer(buf))
			if err != nil {
				return "err", nil
			}
			var res [][]byte
			sl, _ := c18TxSlices(p)
			for _, s := range sl {
				res = append(res, *s)
			}
			return dumpTx(p), res
		}},
		{"confidential.NonceHash", false, func(g *c18Guard) (string, [][]byte) {
			h, err := confidential.NonceHash(g.b("pub", genKey33(g.r)), g.b("priv", c18Scalar(g.r)))
			return fmt.Sprint(hx(h[:]), err), nil
		}},
		{"confidential.AssetCommitment", false, func(g *c18Guard) (string, [][]byte) {
			c, err := confidential.AssetCommitment(hex32(g, "asset"), g.b("factor", c18Scalar(g.r)))
			return fmt.Sprint(hx(c), err), [][]byte{c}
		}},
		{"confidential.ValueCommitment", false, func(g *c18Guard) (string, [][]byte) {
			gen, _ := confidential.AssetCommitment(g.r.Bytes(32), c18Scalar(g.r))
			c, err := confidential.ValueCommitment(uint64(1+g.r.Intn(1000)), g.b("generator", gen), g.b("factor", c18Scalar(g.r)))
			return fmt.Sprint(hx(c), err), [][]byte{c}
		}},
		{"confidential.FinalValueBlindingFactor", false, func(g *c18Guard) (string, [][]byte) {
			one := g.b("one", alOne32)
			h, err := confidential.FinalValueBlindingFactor(confidential.FinalValueBlindingFactorArgs{
				InValues: append(make([]uint64, 0, 6), 10), OutValues: []uint64{4, 6},
				InGenerators: g.bl("ingen", [][]byte{c18Scalar(g.r)}), OutGenerators: g.bl("outgen", [][]byte{c18Scalar(g.r), c18Scalar(g.r)}),
				InFactors: g.bl("infac", [][]byte{c18Scalar(g.r)}), OutFactors: [][]byte{one}})
			return fmt.Sprint(hx(h[:]), err), nil
		}},
		{"confidential.RangeProof+Verify+Unblind", false, func(g *c18Guard) (string, [][]byte) {
			asset, abf := g.r.Bytes(32), c18Scalar(g.r)
			gen, _ := confidential.AssetCommitment(asset, abf)
			vbfb := c18Scalar(g.r)
			vc, _ := confidential.ValueCommitment(5000, gen, vbfb)
			var vbf, nonce [32]byte
			copy(vbf[:], vbfb)
			copy(nonce[:], g.r.Bytes(32))
			script := g.b("script", []byte{0x00, 0x14, 1, 2, 3, 4, 5, 6, 7, 8, 9, 10, 11, 12, 13, 14, 15, 16, 17, 18, 19, 20})
			gGen, gVc := g.b("ValueCommit-asset", gen), g.b("ValueCommit", vc)
			proof, err := confidential.RangeProof(confidential.RangeProofArgs{Value: 5000, Nonce: nonce, Asset: g.b("Asset", asset),
				AssetBlindingFactor: g.b("AssetBlindingFactor", abf), ValueBlindFactor: vbf, ValueCommit: gVc, ScriptPubkey: script, Exp: 0, MinBits: 36})
			if err != nil {
				return "err", nil
			}
			gp := g.b("proof", proof)
			ok := confidential.VerifyRangeProof(gVc, gGen, script, gp)
			out := &transaction.TxOutput{Asset: gGen, Value: gVc, Script: script, Nonce: g.b("Nonce", genKey33(g.r)), RangeProof: gp}
			u, err := confidential.UnblindOutputWithNonce(out, g.b("nonce", nonce[:]))
			if err != nil {
				return fmt.Sprint(hx(proof), ok, "unblind-err"), [][]byte{proof}
			}
			return fmt.Sprint(hx(proof), ok, u.Value, hx(u.Asset), hx(u.AssetBlindingFactor), hx(u.ValueBlindingFactor)),
				[][]byte{proof, u.Asset, u.AssetBlindingFactor, u.ValueBlindingFactor}
		}},
		{"confidential.UnblindOutputWithKey(explicit)", false, func(g *c18Guard) (string, [][]byte) {
			out := &transaction.TxOutput{Asset: g.b("Asset", append([]byte{1}, g.r.Bytes(32)...)), Value: g.b("Value", []byte{1, 0, 0, 0, 0, 0, 0, 0, 5}),
				Script: g.b("Script", []byte{0x51}), Nonce: g.b("Nonce", []byte{0})}
			u, err := confidential.UnblindOutputWithKey(out, g.b("key", c18Scalar(g.r)))
			if err != nil {
				return "err", nil
			}
			return fmt.Sprint(u.Value, hx(u.Asset), hx(u.AssetBlindingFactor), hx(u.ValueBlindingFactor)), [][]byte{u.AssetBlindingFactor, u.ValueBlindingFactor}
		}},
		{"confidential.UnblindOutputWithNonce(explicit)", false, func(g *c18Guard) (string, [][]byte) {
			out := &transaction.TxOutput{Asset: g.b("Asset", append([]byte{1}, g.r.Bytes(32)...)), Value: g.b("Value", []byte{1, 0, 0, 0, 0, 0, 0, 0, 5}),
				Script: g.b("Script", []byte{0x51}), Nonce: g.b("Nonce", []byte{0})}
			u, err := confidential.UnblindOutputWithNonce(out, g.b("nonce", g.r.Bytes(32)))
			if err != nil {
				return "err", nil
			}
			return fmt.Sprint(u.Value, hx(u.Asset), hx(u.AssetBlindingFactor), hx(u.ValueBlindingFactor)), [][]byte{u.AssetBlindingFactor, u.ValueBlindingFactor}
		}},
		{"confidential.SurjectionProof+Verify", true, func(g *c18Guard) (string, [][]byte) {
			a1, a2 := g.r.Bytes(32), g.r.Bytes(32)
			b1, b2, bo := c18Scalar(g.r), c18Scalar(g.r), c18Scalar(g.r)
			ins := g.bl("InputAssets", [][]byte{a1, a2})
			infs := g.bl("InputAssetBlindingFactors", [][]byte{b1, b2})
			oa, ob := g.b("OutputAsset", a1), g.b("OutputAssetBlindingFactor", bo)
			p, ok := confidential.SurjectionProof(confidential.SurjectionProofArgs{OutputAsset: oa, OutputAssetBlindingFactor: ob,
				InputAssets: ins, InputAssetBlindingFactors: infs, Seed: g.b("Seed", g.r.Bytes(32))})
			if !ok {
				return "fail", nil
			}
			v := confidential.VerifySurjectionProof(confidential.VerifySurjectionProofArgs{InputAssets: ins, InputAssetBlindingFactors: infs,
				OutputAsset: oa, OutputAssetBlindingFactor: ob, Proof: g.b("Proof", p)})
			return fmt.Sprint(len(p), v), [][]byte{p}
		}},
		{"confidential.CalculateScalarOffset", false, func(g *c18Guard) (string, [][]byte) {
			var ab, vb []byte
			if g.r.Chance(75) {
				ab = g.b("assetBlinder", c18Scalar(g.r))
			}
			if g.r.Chance(75) {
				vb = g.b("valueBlinder", c18Scalar(g.r))
			}
			s, err := confidential.CalculateScalarOffset(uint64(g.r.Intn(3)), ab, vb)
			return fmt.Sprint(hx(s), err), [][]byte{s}
		}},
		{"confidential.SubtractScalars", false, func(g *c18Guard) (string, [][]byte) {
			a := g.b("a", c18Scalar(g.r))
			b := g.b("b", c18Scalar(g.r))
			if g.r.Chance(20) {
				b = g.b("b2", a)
			}
			s, err := confidential.SubtractScalars(a, b)
			return fmt.Sprint(hx(s), err), [][]byte{s}
		}},
		{"confidential.ComputeAndAddToScalarOffset", false, func(g *c18Guard) (string, [][]byte) {
			sc := g.b("scalar", c18Scalar(g.r))
			s, err := confidential.ComputeAndAddToScalarOffset(sc, uint64(g.r.Intn(3)), g.b("assetBlinder", c18Scalar(g.r)), g.b("valueBlinder", c18Scalar(g.r)))
			return fmt.Sprint(hx(s), err), [][]byte{s}
		}},
		{"confidential.BlindValueProof", true, func(g *c18Guard) (string, [][]byte) {
			asset, abf, vbf := g.r.Bytes(32), c18Scalar(g.r), c18Scalar(g.r)
			gen, _ := confidential.AssetCommitment(asset, abf)
			vc, _ := confidential.ValueCommitment(77, gen, vbf)
			gvc, ggen := g.b("valueCommitment", vc), g.b("assetCommitment", gen)
			p, err := confidential.CreateBlindValueProof(func() ([]byte, error) { return alOne32, nil }, g.b("valueBlinder", vbf), 77, gvc, ggen)
			if err != nil {
				return "err", nil
			}
			ok := confidential.VerifyBlindValueProof(77, gvc, ggen, g.b("proof", p))
			return fmt.Sprint(len(p), ok), [][]byte{p}
		}},
		{"confidential.BlindAssetProof", true, func(g *c18Guard) (string, [][]byte) {
			asset, abf := g.r.Bytes(32), c18Scalar(g.r)
			gen, _ := confidential.AssetCommitment(asset, abf)
			ga, ggen := g.b("asset", asset), g.b("assetCommitment", gen)
			p, err := confidential.CreateBlindAssetProof(ga, ggen, g.b("assetBlinder", abf))
			if err != nil {
				return "err", nil
			}
			ok := confidential.VerifyBlindAssetProof(ga, ggen, g.b("proof", p))
			return fmt.Sprint(len(p), ok), [][]byte{p}
		}},
		{"address.Base58", false, func(g *c18Guard) (string, [][]byte) {
			d := g.b("Data", g.r.Bytes(20))
			s := address.ToBase58(&address.Base58{Version: 57, Data: d})
			b, err := address.FromBase58(s)
			if err != nil {
				return "err", nil
			}
			return s + hx(b.Data), [][]byte{b.Data}
		}},
		{"address.Bech32", false, func(g *c18Guard) (string, [][]byte) {
			p := g.b("Program", g.r.Bytes(g.r.Pick(20, 32)))
			s, err := address.ToBech32(&address.Bech32{Prefix: "ex", Version: byte(g.r.Intn(2)), Program: p})
			if err != nil {
				return "err", nil
			}
			b, err := address.FromBech32(s)
			if err != nil {
				return s + "err", nil
			}
			return s + hx(b.Program), [][]byte{b.Program}
		}},
		{"address.Base58Confidential", false, func(g *c18Guard) (string, [][]byte) {
			s := address.ToBase58Confidential(&address.Base58Confidential{Base58: address.Base58{Version: 57, Data: g.b("Data", g.r.Bytes(20))},
				Version: 12, PublicKey: g.b("PublicKey", genKey33(g.r))})
			b, err := address.FromBase58Confidential(s)
			if err != nil {
				return s + "err", nil
			}
			return s + hx(b.PublicKey) + hx(b.Data), [][]byte{b.PublicKey, b.Data}
		}},
		{"address.Blech32+Confidential", false, func(g *c18Guard) (string, [][]byte) {
			s, err := address.ToBlech32(&address.Blech32{Prefix: "lq", Version: byte(g.r.Intn(2)), PublicKey: g.b("PublicKey", genKey33(g.r)),
				Program: g.b("Program", g.r.Bytes(g.r.Pick(20, 32)))})
			if err != nil {
				return "err", nil
			}
			b, err := address.FromBlech32(s)
			if err != nil {
				return s + "err", nil
			}
			fc, err := address.FromConfidential(s)
			if err != nil {
				return s + "err2", nil
			}
			scr, _ := address.ToOutputScript(s)
			back, _ := address.ToConfidential(&address.AddressInfo{Address: fc.Address, BlindingKey: g.b("BlindingKey", fc.BlindingKey)})
			ty, _ := address.DecodeType(s)
			return fmt.Sprint(s, hx(b.PublicKey), hx(b.Program), fc.Address, hx(scr), back, ty), [][]byte{b.PublicKey, b.Program, fc.BlindingKey, scr}
		}},
		{"address.GetScriptType", false, func(g *c18Guard) (string, [][]byte) {
			scr := g.b("script", append([]byte{byte(g.r.Pick(0x00, 0x51, 0x76, 0xa9))}, g.r.Bytes(1+g.r.Intn(34))...))
			return fmt.Sprint(address.GetScriptType(scr)), nil
		}},
		{"blech32.Encode+ConvertBits", false, func(g *c18Guard) (string, [][]byte) {
			conv, err := blech32.ConvertBits(g.b("data", g.r.Bytes(g.r.Intn(60))), 8, 5, true)
			if err != nil {
				return "err", nil
			}
			s, err := blech32.Encode("lq", g.b("conv", append([]byte{0}, conv...)), blech32.BLECH32)
			if err != nil {
				return "err2", nil
			}
			hrp, d, err := blech32.Decode(s)
			return fmt.Sprint(s, hrp, hx(d), err), [][]byte{conv, d}
		}},
		{"taproot.tree", false, func(g *c18Guard) (string, [][]byte) {
			n := 1 + g.r.Intn(4)
			var leaves []taproot.TapElementsLeaf
			for i := 0; i < n; i++ {
				leaves = append(leaves, taproot.NewBaseTapElementsLeaf(g.b(fmt.Sprintf("script%d", i), append([]byte{byte(i)}, g.r.Bytes(g.r.Intn(20))...))))
			}
			tree := taproot.AssembleTaprootScriptTree(leaves...)
			root := tree.RootNode.TapHash()
			_, pub := btcec.PrivKeyFromBytes(c18Scalar(g.r))
			var sb strings.Builder
			var res [][]byte
			for i := range tree.LeafMerkleProofs {
				cb := tree.LeafMerkleProofs[i].ToControlBlock(pub)
				bs, err := cb.ToBytes()
				if err != nil {
					return "err", nil
				}
				res = append(res, bs)
				gbs := g.b("controlBlock", bs)
				pc, err := taproot.ParseControlBlock(gbs)
				if err != nil {
					return "err-parse", nil
				}
				rh := pc.RootHash(leaves[0].Script)
				sb.WriteString(hx(bs) + hx(rh))
			}
			rootB := g.b("scriptRoot", root[:])
			q := taproot.ComputeTaprootOutputKey(pub, rootB)
			return sb.String() + hx(q.SerializeCompressed()), res
		}},
		{"taproot.TweakTaprootPrivKey", false, func(g *c18Guard) (string, [][]byte) {
			priv, pub := btcec.PrivKeyFromBytes(c18Scalar(g.r))
			g.watch("privKey", func() string { return hx(priv.Serialize()) })
			g.watch("pubKey", func() string { return hx(pub.SerializeCompressed()) })
			root := g.b("scriptRoot", g.r.Bytes(32))
			tw := taproot.TweakTaprootPrivKey(priv, root)
			q := taproot.ComputeTaprootOutputKey(pub, root)
			k := taproot.ComputeTaprootKeyNoScript(pub)
			return hx(tw.Serialize()) + hx(q.SerializeCompressed()) + hx(k.SerializeCompressed()), nil
		}},
		{"elementsutil", false, func(g *c18Guard) (string, [][]byte) {
			v := g.b("val", append([]byte{1}, g.r.Bytes(8)...))
			n, err := elementsutil.ValueFromBytes(v)
			a := g.b("asset", append([]byte{1}, g.r.Bytes(32)...))
			h := g.b("hash", g.r.Bytes(32))
			rv := elementsutil.ReverseBytes(h)
			vb, _ := elementsutil.ValueToBytes(n)
			return fmt.Sprint(n, err, elementsutil.AssetHashFromBytes(a), elementsutil.TxIDFromBytes(h), elementsutil.CommitmentFromBytes(a),
				hx(rv), elementsutil.ValidElementValue(v), hx(vb)), [][]byte{rv, vb}
		}},
		{"payment", false, func(g *c18Guard) (string, [][]byte) {
			_, pub := btcec.PrivKeyFromBytes(c18Scalar(g.r))
			_, bk := btcec.PrivKeyFromBytes(c18Scalar(g.r))
			g.watch("pubkey", func() string { return hx(pub.SerializeCompressed()) })
			g.watch("blindkey", func() string { return hx(bk.SerializeCompressed()) })
			p := payment.FromPublicKey(pub, &network.Liquid, bk)
			g.watch("payment", func() string { return hx(p.Hash) + hx(p.WitnessHash) + hx(p.Script) + hx(p.WitnessScript) })
			var sb strings.Builder
			for _, f := range adrPayMethods(p) {
				s, err := guardEnc(f)
				sb.WriteString(fmt.Sprint(s, err == nil, ";"))
			}
			scr := g.b("script", p.WitnessScript)
			p2, err := payment.FromScript(scr, &network.Liquid, bk)
			if err == nil {
				s, _ := guardEnc(p2.ConfidentialWitnessPubKeyHash)
				sb.WriteString(s)
			}
			return sb.String(), [][]byte{p.Hash, p.WitnessHash, p.Script}
		}},
		{"slip77", false, func(g *c18Guard) (string, [][]byte) {
			seed := g.b("seed", g.r.Bytes(32))
			m, err := slip77.FromSeed(seed)
			if err != nil {
				return "err", nil
			}
			g.watch("MasterKey", func() string { return hx(m.MasterKey) })
			scr := g.b("script", append([]byte{0x00, 0x14}, g.r.Bytes(20)...))
			priv, pub, err := m.DeriveKey(scr)
			if err != nil {
				return "err2", nil
			}
			return hx(priv.Serialize()) + hx(pub.SerializeCompressed()), nil
		}},
		{"descriptor", false, func(g *c18Guard) (string, [][]byte) {
			_, pub := btcec.PrivKeyFromBytes(c18Scalar(g.r))
			w, err := descriptor.Parse("elwpkh(" + hx(pub.SerializeCompressed()) + ")")
			if err != nil {
				return "err", nil
			}
			rs, err := w.Script(nil)
			if err != nil {
				return "err-script", nil
			}
			var outs [][]byte
			var sb strings.Builder
			for _, r := range rs {
				sb.WriteString(hx(r.Script))
				outs = append(outs, r.Script)
			}
			return fmt.Sprint(w.Type(), w.IsRange(), sb.String()), outs
		}},
		{"address.decoders", false, func(g *c18Guard) (string, [][]byte) {
			// decode, (the caller scribbles over what it got,) decode the same strings again
			_, pub := btcec.PrivKeyFromBytes(c18Scalar(g.r))
			_, bk := btcec.PrivKeyFromBytes(c18Scalar(g.r))
			p := payment.FromPublicKey(pub, []*network.Network{&network.Liquid, &network.Regtest, &network.Testnet}[g.r.Intn(3)], bk)
			var sb strings.Builder
			var outs [][]byte
			for _, m := range adrPayMethods(p) {
				a, err := guardEnc(m)
				if err != nil || a == "" {
					continue
				}
				sb.WriteString(a + ":")
				if b, err := address.FromBase58(a); err == nil {
					sb.WriteString(hx(b.Data))
					outs = append(outs, b.Data)
				}
				if b, err := address.FromBase58Confidential(a); err == nil {
					sb.WriteString(hx(b.PublicKey) + hx(b.Data))
					outs = append(outs, b.PublicKey, b.Data)
				}
				if b, err := address.FromBech32(a); err == nil {
					sb.WriteString(hx(b.Program))
					outs = append(outs, b.Program)
				}
				if b, err := address.FromBlech32(a); err == nil {
					sb.WriteString(hx(b.PublicKey) + hx(b.Program))
					outs = append(outs, b.PublicKey, b.Program)
				}
				if fc, err := address.FromConfidential(a); err == nil {
					sb.WriteString(fc.Address + hx(fc.BlindingKey) + hx(fc.Script))
					outs = append(outs, fc.BlindingKey, fc.Script)
				}
				if scr, err := address.ToOutputScript(a); err == nil {
					sb.WriteString(hx(scr))
					outs = append(outs, scr)
				}
				if hrp, d, err := blech32.Decode(a); err == nil {
					sb.WriteString(hrp + hx(d))
					outs = append(outs, d)
				}
				ty, _ := address.DecodeType(a)
				sb.WriteString(fmt.Sprint(ty, ";"))
			}
			return sb.String(), outs
		}},
		{"pset.v0", false, func(g *c18Guard) (string, [][]byte) {
			if len(c18Seeds.psetV0B64) == 0 {
				return "none", nil
			}
			b64 := c18Seeds.psetV0B64[g.r.Intn(len(c18Seeds.psetV0B64))]
			p, err := pset.NewPsetFromBase64(b64)
			if err != nil {
				return "err", nil
			}
			// two signatures / derivations in descending key order, so that a serializer that sorts the live packet is seen
			if len(p.Inputs) > 0 {
				p.Inputs[0].FinalScriptSig, p.Inputs[0].FinalScriptWitness = nil, nil
				k3, k2 := append([]byte{3}, g.r.Bytes(32)...), append([]byte{2}, g.r.Bytes(32)...)
				p.Inputs[0].PartialSigs = []*psbt.PartialSig{{PubKey: k3, Signature: []byte{0x30, 1}}, {PubKey: k2, Signature: []byte{0x30, 2}}}
				p.Inputs[0].Bip32Derivation = []*psbt.Bip32Derivation{{PubKey: k3, MasterKeyFingerprint: 1, Bip32Path: []uint32{1}},
					{PubKey: k2, MasterKeyFingerprint: 2, Bip32Path: []uint32{2}}}
			}
			if len(p.Outputs) > 0 {
				k3, k2 := append([]byte{3}, g.r.Bytes(32)...), append([]byte{2}, g.r.Bytes(32)...)
				p.Outputs[0].Bip32Derivation = []*psbt.Bip32Derivation{{PubKey: k3, MasterKeyFingerprint: 1, Bip32Path: []uint32{1}},
					{PubKey: k2, MasterKeyFingerprint: 2, Bip32Path: []uint32{2}}}
			}
			g.watch("packet", func() string { return c18JSON(p) })
			s1, e1 := p.ToBase64()
			h1, _ := p.ToHex()
			ok := p.IsComplete()
			err = p.SanityCheck()
			for i := range p.Inputs {
				guarded(func() { p.ValidateInputSignatures(i) })
			}
			return fmt.Sprint(s1, e1, len(h1), ok, err == nil), nil
		}},
		{"psetv2", false, func(g *c18Guard) (string, [][]byte) {
			if len(c18Seeds.psetV2B64) == 0 {
				return "none", nil
			}
			b64 := c18Seeds.psetV2B64[g.r.Intn(len(c18Seeds.psetV2B64))]
			p, err := psetv2.NewPsetFromBase64(b64)
			if err != nil {
				return "err", nil
			}
			g.watch("packet", func() string { return c18JSON(p) })
			s1, e1 := p.ToBase64()
			var sb strings.Builder
			sb.WriteString(fmt.Sprint(s1, e1, p.Locktime(), p.IsComplete(), p.NeedsBlinding(), p.IsFullyBlinded(), p.InputsModifiable(), p.OutputsModifiable(), p.HasSighashSingle(), p.SanityCheck() == nil))
			if tx, err := p.UnsignedTx(); err == nil {
				h := tx.TxHash()
				sb.WriteString(hx(h[:]))
			}
			for i := range p.Inputs {
				in := &p.Inputs[i]
				guarded(func() {
					u := in.GetUtxo()
					if u != nil {
						sb.WriteString(hx(u.Script) + hx(u.RangeProof))
					}
					sb.WriteString(hx(in.GetIssuanceAssetHash()) + hx(in.GetIssuanceInflationKeysHash()))
					sb.WriteString(fmt.Sprint(in.HasIssuance(), in.HasReissuance()))
				})
				guarded(func() { p.ValidateInputSignatures(i) })
			}
			for i := range p.Outputs {
				o := &p.Outputs[i]
				sb.WriteString(fmt.Sprint(o.NeedsBlinding(), o.IsFullyBlinded(), o.IsPartiallyBlinded()))
			}
			cp := p.Copy()
			s2, _ := cp.ToBase64()
			sb.WriteString(fmt.Sprint(s1 == s2))
			return sb.String(), nil
		}},
	}
	return fns
}

func c18RunFn(f c18Fn, seed uint64) (res string, outs [][]byte, changed string, panicked bool) {
	g := newC18Guard(NewRng(seed))
	if p := guarded(func() { res, outs = f.run(g) }); p != nil {
		return "", nil, "", true
	}
	return res, outs, g.changed(), false
}

// c18fn <seed>
func checkC18Fn(t *Toks) string {
	seed := t.U64()
	r := NewRng(seed)
	fns := c18Catalogue()
	g0 := alHexs(alGlobals())
	for i, f := range fns {
		s := seed*1000 + uint64(i)
		res1, outs, changed, pan := c18RunFn(f, s)
		if pan {
			return fail("panic", f.name)
		}
		if changed != "" {
			return fail("readonly."+f.name, c18Field(changed))
		}
		if alHexs(alGlobals()) != g0 {
			return fail("globals", f.name)
		}
		// results must not give write access to package-level values
		for _, o := range outs {
			full := o[:cap(o)]
			for j := range full {
				full[j] ^= 0xff
			}
			hit := alHexs(alGlobals()) != g0
			for j := range full {
				full[j] ^= 0xff
			}
			if hit {
				return fail("result-aliases-global", f.name)
			}
		}
		// hidden state: the caller overwrites what it was handed (its own data now) ...
		for _, o := range outs {
			full := o[:cap(o)]
			for j := range full {
				full[j] ^= 0xff
			}
		}
		if alHexs(alGlobals()) != g0 {
			return fail("result-aliases-global", f.name)
		}
		// (c) ... then the same call after a batch of other calls must give what it gave before
		for k := 0; k < 3; k++ {
			o := fns[r.Intn(len(fns))]
			if o.name == "confidential.RangeProof+Verify+Unblind" && !r.Chance(20) {
				continue
			}
			c18RunFn(o, r.U64())
		}
		res2, _, _, pan2 := c18RunFn(f, s)
		if pan2 {
			return fail("panic", f.name)
		}
		if !f.nondet && res1 != res2 {
			return fail("repeat."+f.name, "result-differs-after-other-calls")
		}
		if alHexs(alGlobals()) != g0 {
			return fail("globals", f.name)
		}
	}
	if x := c18BufferSweep(r); x != "" {
		return x
	}
	return "OK"
}

func genC18Fn(r *Rng, n int, w *bufio.Writer) {
	for i := 0; i < n; i++ {
		fmt.Fprintf(w, "c18fn %d\n", r.U64()%1000000)
	}
}

// ---------- c18race: read-only calls from 8 goroutines under the race detector ----------

var c18RaceBuild sync.Once
var c18RaceErr string

func checkC18Race(t *Toks) string {
	iters := t.Int()
	dir := "/verif/harness"
	bin := filepath.Join(dir, "bin", "impl_race")
	c18RaceBuild.Do(func() {
		cmd := exec.Command("go", "build", "-race", "-tags", "verif", "-o", bin, "./race")
		cmd.Dir = dir
		cmd.Env = append(os.Environ(), "GOFLAGS=-mod=mod", "GOPROXY=off", "GOSUMDB=off", "GOTOOLCHAIN=local")
		if out, err := cmd.CombinedOutput(); err != nil {
			c18RaceErr = strings.ReplaceAll(string(out), "\n", " ")
			if len(c18RaceErr) > 300 {
				c18RaceErr = c18RaceErr[len(c18RaceErr)-300:]
			}
		}
	})
	if c18RaceErr != "" {
		return "SKIP race-binary-does-not-build:" + strings.ReplaceAll(c18RaceErr, " ", "_")
	}
	cmd := exec.Command(bin, fmt.Sprint(iters))
	cmd.Env = append(os.Environ(), "GORACE=halt_on_error=1 exitcode=66")
	var out bytes.Buffer
	cmd.Stdout, cmd.Stderr = &out, &out
	done := make(chan error, 1)
	if err := cmd.Start(); err != nil {
		return "SKIP race-binary-does-not-start"
	}
	go func() { done <- cmd.Wait() }()
	select {
	case err := <-done:
		s := out.String()
		if strings.Contains(s, "DATA RACE") {
			where := "unknown"
			for _, l := range strings.Split(s, "\n") {
				l = strings.TrimSpace(l)
				if strings.HasPrefix(l, "github.com/vulpemventures/go-elements/") {
					where = strings.SplitN(strings.TrimPrefix(l, "github.com/vulpemventures/go-elements/"), "(", 2)[0]
					break
				}
			}
			return fail("race", strings.ReplaceAll(where, " ", "_"))
		}
		if strings.Contains(s, "WRONG") {
			i := strings.Index(s, "WRONG")
			return fail("concurrent-result", strings.ReplaceAll(strings.SplitN(s[i:], "\n", 2)[0], " ", "_"))
		}
		if err != nil {
			return fail("race-run", strings.ReplaceAll(strings.TrimSpace(s[maxC18(0, len(s)-120):]), " ", "_"))
		}
		return "OK"
	case <-time.After(240 * time.Second):
		cmd.Process.Kill()
		return "SKIP race-run-timeout"
	}
}

func maxC18(a, b int) int {
	if a > b {
		return a
	}
	return b
}

func genC18Race(r *Rng, n int, w *bufio.Writer) {
	for i := 0; i < n; i++ {
		fmt.Fprintf(w, "c18race %d\n", 400+r.Intn(100))
	}
}

func init() {
	checks["C18/alias"] = checkC18Alias
	checks["C18/flist"] = checkC18Flist
	checks["C18/tx"] = checkC18Tx
	checks["C18/c18fn"] = checkC18Fn
	checks["C18/c18race"] = checkC18Race
	gens["c18fn"] = genC18Fn
	gens["c18race"] = genC18Race
}
