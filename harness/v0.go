package main

// PSET v0 family (property C08): abstract packet text format, generators (packets built
// through creator/updater/signer/finalizer, arbitrary packets, malformed byte streams) and
// the runners that print the implementation's result in the same format as ocaml/drv_v0.ml.

import (
	"bufio"
	"bytes"
	"crypto/sha256"
	"encoding/base64"
	"encoding/binary"
	"encoding/hex"
	"fmt"
	"sort"
	"strings"

	"github.com/btcsuite/btcd/btcec/v2"
	"github.com/btcsuite/btcd/btcec/v2/ecdsa"
	"github.com/btcsuite/btcd/btcutil"
	"github.com/btcsuite/btcd/btcutil/psbt"
	"github.com/btcsuite/btcd/txscript"
	"github.com/vulpemventures/go-elements/pset"
	"github.com/vulpemventures/go-elements/transaction"
)

// ---------- abstract packet text format (shared with ocaml/drv_v0.ml) ----------

func v0NonNil(b []byte) []byte {
	if b == nil {
		return []byte{}
	}
	return b
}

func v0ReadOpt(t *Toks) []byte {
	if t.Int() == 1 {
		return v0NonNil(t.Hex())
	}
	return nil
}

func v0ReadOut(t *Toks) *transaction.TxOutput {
	o := &transaction.TxOutput{}
	o.Asset = t.Hex()
	o.Value = t.Hex()
	o.Script = t.Hex()
	o.Nonce = t.Hex()
	o.RangeProof = t.Hex()
	o.SurjectionProof = t.Hex()
	return o
}

func v0ReadDers(t *Toks) []*psbt.Bip32Derivation {
	n := t.Int()
	var l []*psbt.Bip32Derivation
	for i := 0; i < n; i++ {
		d := &psbt.Bip32Derivation{}
		d.PubKey = t.Hex()
		d.MasterKeyFingerprint = uint32(t.U64())
		np := t.Int()
		for j := 0; j < np; j++ {
			d.Bip32Path = append(d.Bip32Path, uint32(t.U64()))
		}
		l = append(l, d)
	}
	return l
}

func v0ReadPset(t *Toks) *pset.Pset {
	p := &pset.Pset{}
	p.UnsignedTx = readTx(t)
	nin := t.Int()
	for i := 0; i < nin; i++ {
		in := pset.PInput{}
		if t.Int() == 1 {
			in.NonWitnessUtxo = readTx(t)
		}
		if t.Int() == 1 {
			in.WitnessUtxo = v0ReadOut(t)
		}
		ns := t.Int()
		for j := 0; j < ns; j++ {
			s := &psbt.PartialSig{}
			s.PubKey = t.Hex()
			s.Signature = t.Hex()
			in.PartialSigs = append(in.PartialSigs, s)
		}
		in.SighashType = txscript.SigHashType(uint32(t.U64()))
		in.RedeemScript = v0ReadOpt(t)
		in.WitnessScript = v0ReadOpt(t)
		in.Bip32Derivation = v0ReadDers(t)
		in.FinalScriptSig = v0ReadOpt(t)
		in.FinalScriptWitness = v0ReadOpt(t)
		nu := t.Int()
		for j := 0; j < nu; j++ {
			u := &pset.Unknown{}
			u.Key = t.Hex()
			u.Value = t.Hex()
			in.Unknowns = append(in.Unknowns, u)
		}
		p.Inputs = append(p.Inputs, in)
	}
	nout := t.Int()
	for i := 0; i < nout; i++ {
		o := pset.POutput{}
		o.RedeemScript = v0ReadOpt(t)
		o.WitnessScript = v0ReadOpt(t)
		o.Bip32Derivation = v0ReadDers(t)
		p.Outputs = append(p.Outputs, o)
	}
	nu := t.Int()
	for j := 0; j < nu; j++ {
		p.Unknowns = append(p.Unknowns, pset.Unknown{Key: t.Hex(), Value: t.Hex()})
	}
	return p
}

func v0WriteOpt(b *sb, x []byte) {
	if x == nil {
		b.add("0")
		return
	}
	b.add("1")
	b.addh(x)
}

func v0WriteOut(b *sb, o *transaction.TxOutput) {
	b.addh(o.Asset)
	b.addh(o.Value)
	b.addh(o.Script)
	b.addh(o.Nonce)
	b.addh(o.RangeProof)
	b.addh(o.SurjectionProof)
}

func v0WriteDers(b *sb, l []*psbt.Bip32Derivation) {
	b.addn(uint64(len(l)))
	for _, d := range l {
		b.addh(d.PubKey)
		b.addn(uint64(d.MasterKeyFingerprint))
		b.addn(uint64(len(d.Bip32Path)))
		for _, x := range d.Bip32Path {
			b.addn(uint64(x))
		}
	}
}

// v0WritePset writes the packet tokens; txSep is how the embedded transaction dump is
// delimited (space separated tokens in case lines, one comma-joined chunk in result dumps).
func v0WritePset(b *sb, p *pset.Pset) {
	writeTx(b, p.UnsignedTx)
	b.addn(uint64(len(p.Inputs)))
	for i := range p.Inputs {
		in := &p.Inputs[i]
		if in.NonWitnessUtxo != nil {
			b.add("1")
			writeTx(b, in.NonWitnessUtxo)
		} else {
			b.add("0")
		}
		if in.WitnessUtxo != nil {
			b.add("1")
			v0WriteOut(b, in.WitnessUtxo)
		} else {
			b.add("0")
		}
		b.addn(uint64(len(in.PartialSigs)))
		for _, s := range in.PartialSigs {
			b.addh(s.PubKey)
			b.addh(s.Signature)
		}
		b.addn(uint64(uint32(in.SighashType)))
		v0WriteOpt(b, in.RedeemScript)
		v0WriteOpt(b, in.WitnessScript)
		v0WriteDers(b, in.Bip32Derivation)
		v0WriteOpt(b, in.FinalScriptSig)
		v0WriteOpt(b, in.FinalScriptWitness)
		b.addn(uint64(len(in.Unknowns)))
		for _, u := range in.Unknowns {
			b.addh(u.Key)
			b.addh(u.Value)
		}
	}
	b.addn(uint64(len(p.Outputs)))
	for i := range p.Outputs {
		o := &p.Outputs[i]
		v0WriteOpt(b, o.RedeemScript)
		v0WriteOpt(b, o.WitnessScript)
		v0WriteDers(b, o.Bip32Derivation)
	}
	b.addn(uint64(len(p.Unknowns)))
	for _, u := range p.Unknowns {
		b.addh(u.Key)
		b.addh(u.Value)
	}
}

func v0Dump(p *pset.Pset) string {
	var b sb
	v0WritePset(&b, p)
	return b.commas()
}

// ---------- the external validity predicates, evaluated by the real libraries ----------

func v0ValidPk(x []byte) bool  { _, err := btcec.ParsePubKey(x); return err == nil }
func v0ValidSig(x []byte) bool { _, err := ecdsa.ParseDERSignature(x); return err == nil }

func v0ReadVarInt(bs []byte) (uint64, int, bool) {
	if len(bs) == 0 {
		return 0, 0, false
	}
	switch bs[0] {
	case 0xff:
		if len(bs) < 9 {
			return 0, 0, false
		}
		return binary.LittleEndian.Uint64(bs[1:9]), 9, true
	case 0xfe:
		if len(bs) < 5 {
			return 0, 0, false
		}
		return uint64(binary.LittleEndian.Uint32(bs[1:5])), 5, true
	case 0xfd:
		if len(bs) < 3 {
			return 0, 0, false
		}
		return uint64(binary.LittleEndian.Uint16(bs[1:3])), 3, true
	}
	return uint64(bs[0]), 1, true
}

func v0VarBytes(x []byte) []byte {
	var b bytes.Buffer
	n := uint64(len(x))
	switch {
	case n < 0xfd:
		b.WriteByte(byte(n))
	case n <= 0xffff:
		b.WriteByte(0xfd)
		var t [2]byte
		binary.LittleEndian.PutUint16(t[:], uint16(n))
		b.Write(t[:])
	default:
		b.WriteByte(0xfe)
		var t [4]byte
		binary.LittleEndian.PutUint32(t[:], uint32(n))
		b.Write(t[:])
	}
	b.Write(x)
	return b.Bytes()
}

// v0Records splits the stream after the magic into length-prefixed records (framing only).
// Keys and values alternate; a zero-length key is a separator and has no value.
func v0Records(bs []byte) (keys, vals [][]byte) {
	if len(bs) < 5 {
		return
	}
	bs = bs[5:]
	for len(bs) > 0 {
		n, k, ok := v0ReadVarInt(bs)
		if !ok || uint64(len(bs)-k) < n {
			return
		}
		key := bs[k : k+int(n)]
		bs = bs[k+int(n):]
		if n == 0 {
			continue
		}
		m, k2, ok := v0ReadVarInt(bs)
		if !ok || uint64(len(bs)-k2) < m {
			keys = append(keys, key)
			return
		}
		keys = append(keys, key)
		vals = append(vals, bs[k2:k2+int(m)])
		bs = bs[k2+int(m):]
	}
	return
}

// v0Oracle lists the key-data strings of the stream that are valid public keys and the
// values that are valid DER signatures (the model takes the two predicates as parameters).
func v0Oracle(b *sb, p *pset.Pset, streams ...[]byte) {
	var vp, vs [][]byte
	seenP, seenS := map[string]bool{}, map[string]bool{}
	pk := func(kd []byte) {
		if len(kd) <= 200 && !seenP[string(kd)] {
			seenP[string(kd)] = true
			if v0ValidPk(kd) {
				vp = append(vp, kd)
			}
		}
	}
	sg := func(v []byte) {
		if len(v) <= 5000 && !seenS[string(v)] {
			seenS[string(v)] = true
			if v0ValidSig(v) {
				vs = append(vs, v)
			}
		}
	}
	for _, bs := range streams {
		keys, vals := v0Records(bs)
		for _, k := range keys {
			pk(k[1:])
		}
		for _, v := range vals {
			sg(v)
		}
	}
	if p != nil { // fields a finalized input keeps in memory but does not write
		for i := range p.Inputs {
			for _, s := range p.Inputs[i].PartialSigs {
				pk(s.PubKey)
				sg(s.Signature)
			}
			for _, d := range p.Inputs[i].Bip32Derivation {
				pk(d.PubKey)
			}
		}
		for i := range p.Outputs {
			for _, d := range p.Outputs[i].Bip32Derivation {
				pk(d.PubKey)
			}
		}
	}
	b.addl(vp)
	b.addl(vs)
}

func v0SkipOracle(t *Toks) {
	t.HexList()
	t.HexList()
}

// v0OracleFor serializes with a re-implementation-free trick: the packet is copied through
// the text format, serialized by the implementation and scanned. If serialization fails the
// parser is never run on it and the tables are irrelevant.
func v0PacketStream(p *pset.Pset) []byte {
	q := v0Clone(p)
	var out []byte
	func() {
		defer func() { recover() }()
		h, err := q.ToHex()
		if err == nil {
			out, _ = hex.DecodeString(h)
		}
	}()
	return out
}

func v0Clone(p *pset.Pset) *pset.Pset {
	var b sb
	v0WritePset(&b, p)
	line := strings.TrimSpace(b.String())
	t := &Toks{l: strings.Split(line, " "), line: line}
	q := v0ReadPset(t)
	// keep nil-versus-empty of the option fields exactly (the text format already does); the
	// remaining slices are only ever tested with len()
	return q
}

// ---------- scripts and keys ----------

type v0Key struct {
	priv *btcec.PrivateKey
	pub  []byte
}

func v0NewKey(r *Rng) v0Key {
	for {
		b := r.Bytes(32)
		priv, pub := btcec.PrivKeyFromBytes(b)
		if priv.Key.IsZero() {
			continue
		}
		if r.Chance(15) {
			return v0Key{priv, pub.SerializeUncompressed()}
		}
		return v0Key{priv, pub.SerializeCompressed()}
	}
}

// v0Sibling returns a different key with the same X coordinate: the negated key -P
// (02X <-> 03X, a distinct key with its own private scalar) or the same point in the other
// encoding (compressed <-> uncompressed). Duplicate-key tests compare whole byte strings.
func v0Sibling(r *Rng, k v0Key) v0Key {
	if r.Bool() {
		var d btcec.ModNScalar
		d.Set(&k.priv.Key)
		d.Negate()
		np := btcec.PrivKeyFromScalar(&d)
		if len(k.pub) == 33 {
			return v0Key{np, np.PubKey().SerializeCompressed()}
		}
		return v0Key{np, np.PubKey().SerializeUncompressed()}
	}
	if len(k.pub) == 33 {
		return v0Key{k.priv, k.priv.PubKey().SerializeUncompressed()}
	}
	return v0Key{k.priv, k.priv.PubKey().SerializeCompressed()}
}

// v0GenKeys draws n keys; now and then two of them share their X coordinate.
func v0GenKeys(r *Rng, n int) []v0Key {
	var l []v0Key
	for j := 0; j < n; j++ {
		if j > 0 && r.Chance(20) {
			l = append(l, v0Sibling(r, l[r.Intn(j)]))
			continue
		}
		l = append(l, v0NewKey(r))
	}
	// the same sibling may have been drawn twice: keep byte strings distinct
	seen := map[string]bool{}
	for j := range l {
		for seen[string(l[j].pub)] {
			l[j] = v0NewKey(r)
		}
		seen[string(l[j].pub)] = true
	}
	return l
}

func (k v0Key) sign(r *Rng, ht byte) []byte {
	return append(ecdsa.Sign(k.priv, r.Bytes(32)).Serialize(), ht)
}

func v0P2wpkh(pub []byte) []byte { return append([]byte{0x00, 0x14}, btcutil.Hash160(pub)...) }
func v0P2pkh(pub []byte) []byte {
	return append(append([]byte{0x76, 0xa9, 0x14}, btcutil.Hash160(pub)...), 0x88, 0xac)
}
func v0P2sh(script []byte) []byte {
	return append(append([]byte{0xa9, 0x14}, btcutil.Hash160(script)...), 0x87)
}
func v0P2wsh(script []byte) []byte {
	h := sha256.Sum256(script)
	return append([]byte{0x00, 0x20}, h[:]...)
}
func v0Multisig(m int, pubs [][]byte) []byte {
	s := []byte{byte(0x50 + m)}
	for _, p := range pubs {
		s = append(s, byte(len(p)))
		s = append(s, p...)
	}
	return append(s, byte(0x50+len(pubs)), 0xae)
}

// v0GenMixedOutput draws asset, value and nonce kinds independently (explicit or committed asset,
// explicit or committed value, null or 33-byte nonce: all eight combinations), with or without
// proofs. Whether the proofs travel with a witness UTXO is decided by the nonce alone.
func v0GenMixedOutput(r *Rng, script []byte) *transaction.TxOutput {
	o := &transaction.TxOutput{Script: script}
	if r.Bool() {
		o.Asset = append([]byte{1}, r.Bytes(32)...)
	} else {
		o.Asset = append([]byte{byte(r.Pick(10, 11))}, r.Bytes(32)...)
	}
	if r.Bool() {
		o.Value = append([]byte{1}, r.Bytes(8)...)
	} else {
		o.Value = append([]byte{byte(r.Pick(8, 9))}, r.Bytes(32)...)
	}
	if r.Bool() {
		o.Nonce = []byte{0}
	} else {
		o.Nonce = append([]byte{byte(r.Pick(2, 3))}, r.Bytes(32)...)
	}
	switch r.Intn(4) {
	case 0: // no proofs
	case 1:
		o.RangeProof = r.Bytes(r.Pick(1, 60, 300))
	case 2:
		o.SurjectionProof = r.Bytes(r.Pick(1, 67))
	default:
		o.RangeProof, o.SurjectionProof = r.Bytes(r.Pick(60, 0xfd, 2893)), r.Bytes(r.Pick(67, 131))
	}
	return o
}

func v0GenOutput(r *Rng, script []byte) *transaction.TxOutput {
	if r.Chance(20) {
		return v0GenMixedOutput(r, script)
	}
	switch k := r.Intn(100); {
	case k < 45: // explicit
		return transaction.NewTxOutput(append([]byte{1}, r.Bytes(32)...), append([]byte{1}, r.Bytes(8)...), script)
	case k < 85: // confidential with proofs
		return &transaction.TxOutput{
			Asset: append([]byte{byte(r.Pick(10, 11))}, r.Bytes(32)...), Value: append([]byte{byte(r.Pick(8, 9))}, r.Bytes(32)...),
			Script: script, Nonce: append([]byte{byte(r.Pick(2, 3))}, r.Bytes(32)...),
			RangeProof: r.Bytes(r.Pick(0, 1, 60, 0xfc, 0xfd, 300, 4174)), SurjectionProof: r.Bytes(r.Pick(0, 1, 67, 131, 0xfd)),
		}
	case k < 93: // confidential value and asset, null nonce, proofs attached
		return &transaction.TxOutput{
			Asset: append([]byte{byte(r.Pick(10, 11))}, r.Bytes(32)...), Value: append([]byte{byte(r.Pick(8, 9))}, r.Bytes(32)...),
			Script: script, Nonce: []byte{0}, RangeProof: r.Bytes(r.Pick(1, 60, 300)), SurjectionProof: r.Bytes(r.Pick(0, 67)),
		}
	default: // explicit, proofs empty but non-nil
		o := transaction.NewTxOutput(append([]byte{1}, r.Bytes(32)...), append([]byte{1}, r.Bytes(8)...), script)
		o.RangeProof, o.SurjectionProof = []byte{}, []byte{}
		return o
	}
}

var v0SighashTypes = []uint32{1, 2, 3, 0x81, 0x82, 0x83, 0x41, 0x42, 0x43, 0xc1, 0xc3}

func v0GenDerivation(r *Rng, allowEmptyPath bool) (uint32, []uint32, []byte) {
	k := v0NewKey(r)
	n := r.Pick(1, 1, 2, 3, 5)
	if allowEmptyPath && r.Chance(2) {
		n = 0
	}
	var path []uint32
	for i := 0; i < n; i++ {
		x := uint32(r.Intn(20))
		if r.Chance(50) {
			x |= 0x80000000
		}
		if r.Chance(10) {
			x = uint32(r.U64())
		}
		path = append(path, x)
	}
	return uint32(r.U64()), path, k.pub
}

func v0GenUnknown(r *Rng) *pset.Unknown {
	ty := byte(r.Pick(9, 10, 0x0f, 0x7f, 0xfc, 0xfc, 0xfd, 0xff))
	u := &pset.Unknown{Key: append([]byte{ty}, r.Bytes(r.Pick(0, 0, 1, 5, 33, 0xfc))...), Value: r.Bytes(r.Pick(0, 1, 4, 40, 0xfd))}
	switch k := r.Intn(100); {
	case k < 6: // values around MaxPsbtKeyLength: a value is capped by MaxPsbtValueLength, not by the key cap
		u.Value = r.Bytes(r.Pick(9999, 10000, 10001, 10002, 0xffff, 0x10000))
	case k < 9: // keys at the key cap (type byte included)
		u.Key = append([]byte{ty}, r.Bytes(r.Pick(9998, 9999))...)
	}
	return u
}

// v0GenBigOutputs makes the transaction carry at least three confidential outputs with
// full-size proofs, so that its serialization is well above 10000 bytes.
func v0GenBigOutputs(r *Rng, tx *transaction.Transaction) {
	n := 3 + r.Intn(2)
	for len(tx.Outputs) < n {
		tx.Outputs = append(tx.Outputs, v0GenOutput(r, r.Bytes(r.Pick(22, 23, 34))))
	}
	for i := 0; i < n; i++ {
		o := tx.Outputs[i]
		o.Asset = append([]byte{byte(r.Pick(10, 11))}, r.Bytes(32)...)
		o.Value = append([]byte{byte(r.Pick(8, 9))}, r.Bytes(32)...)
		o.Nonce = append([]byte{byte(r.Pick(2, 3))}, r.Bytes(32)...)
		o.RangeProof = r.Bytes(r.Pick(4174, 4174, 2893, 5134))
		o.SurjectionProof = r.Bytes(r.Pick(67, 131, 195))
	}
}

// v0GenAPI builds a packet with the creator, updater, signer and finalizer only (plus
// per-input Unknowns, which have no setter and are a public field).
func v0GenAPI(r *Rng) *pset.Pset {
	nin := r.Pick(0, 1, 1, 2, 2, 3)
	nout := r.Pick(0, 1, 1, 2, 3)
	type plan struct {
		nwu           *transaction.Transaction
		wu            *transaction.TxOutput
		redeem, ws    []byte
		keys          []v0Key
		nsign         int
		canFinalize   bool
		kind          int
		passScriptsAt int
	}
	var plans []plan
	var ins []*transaction.TxInput
	for i := 0; i < nin; i++ {
		var pl plan
		pl.kind = r.Intn(8)
		k1 := v0NewKey(r)
		pl.keys = []v0Key{k1}
		pl.nsign = 1
		pl.canFinalize = true
		var spk []byte
		switch pl.kind {
		case 0, 1: // p2wpkh
			spk = v0P2wpkh(k1.pub)
		case 2: // p2sh-p2wpkh
			pl.redeem = v0P2wpkh(k1.pub)
			spk = v0P2sh(pl.redeem)
		case 3, 4: // p2wsh / p2sh-p2wsh multisig
			n := r.Pick(1, 2, 3)
			m := 1 + r.Intn(n)
			pl.keys = v0GenKeys(r, n)
			var pubs [][]byte
			for _, k := range pl.keys {
				pubs = append(pubs, k.pub)
			}
			pl.ws = v0Multisig(m, pubs)
			pl.nsign = m
			if r.Chance(30) && m > 1 {
				pl.nsign = m - 1
				pl.canFinalize = false
			}
			if pl.kind == 3 {
				spk = v0P2wsh(pl.ws)
			} else {
				pl.redeem = v0P2wsh(pl.ws)
				spk = v0P2sh(pl.redeem)
			}
		case 5: // legacy p2pkh
			spk = v0P2pkh(k1.pub)
		case 6: // legacy p2sh multisig
			n := r.Pick(1, 2, 3)
			m := 1 + r.Intn(n)
			pl.keys = v0GenKeys(r, n)
			var pubs [][]byte
			for _, k := range pl.keys {
				pubs = append(pubs, k.pub)
			}
			pl.redeem = v0Multisig(m, pubs)
			pl.nsign = m
			spk = v0P2sh(pl.redeem)
		case 7: // non-witness utxo whose output is a witness program (signer converts it)
			spk = v0P2wpkh(k1.pub)
		}
		hash := r.Bytes(32)
		index := uint32(r.Intn(3))
		if pl.kind >= 5 {
			prev := genTx(r, true)
			for len(prev.Outputs) <= int(index) {
				prev.Outputs = append(prev.Outputs, v0GenOutput(r, r.Bytes(r.Intn(30))))
			}
			if len(prev.Outputs) > 6 {
				prev.Outputs = prev.Outputs[:6]
			}
			if len(prev.Inputs) > 6 {
				prev.Inputs = prev.Inputs[:6]
			}
			if r.Chance(30) {
				v0GenBigOutputs(r, prev)
			}
			o := v0GenOutput(r, spk)
			if r.Chance(50) { // keep the spent output's proofs when it is confidential
				o.RangeProof, o.SurjectionProof = prev.Outputs[index].RangeProof, prev.Outputs[index].SurjectionProof
				if len(o.Nonce) <= 1 {
					o.RangeProof, o.SurjectionProof = nil, nil
				}
			}
			prev.Outputs[index] = o
			h := prev.TxHash()
			hash = h.CloneBytes()
			pl.nwu = prev
		} else {
			pl.wu = v0GenOutput(r, spk)
			if len(pl.wu.Nonce) > 1 && r.Chance(10) {
				pl.wu.RangeProof = r.Bytes(r.Pick(9900, 10001, 12000))
			}
		}
		ins = append(ins, transaction.NewTxInput(hash, index))
		plans = append(plans, pl)
	}
	var outs []*transaction.TxOutput
	for i := 0; i < nout; i++ {
		outs = append(outs, v0GenOutput(r, r.Bytes(r.Pick(0, 22, 23, 25, 34))))
	}
	p, err := pset.New(ins, outs, int32(r.Pick(2, 2, 1, 3)), uint32(r.Pick(0, 0, 1, 500000000, 0xffffffff)))
	if err != nil {
		panic(err)
	}
	u, err := pset.NewUpdater(p)
	if err != nil {
		panic(err)
	}
	for i, pl := range plans {
		if pl.nwu != nil {
			u.AddInNonWitnessUtxo(pl.nwu, i)
		} else {
			u.AddInWitnessUtxo(pl.wu, i)
		}
		ht := byte(1)
		if r.Chance(50) {
			x := v0SighashTypes[r.Intn(len(v0SighashTypes))]
			u.AddInSighashType(txscript.SigHashType(x), i)
			ht = byte(x)
		}
		if r.Chance(25) { // the updater adds the scripts before the signer does
			if pl.redeem != nil {
				u.AddInRedeemScript(pl.redeem, i)
			}
			if pl.ws != nil {
				u.AddInWitnessScript(pl.ws, i)
			}
		}
		nd := r.Pick(0, 0, 1, 2, 3)
		for _, k := range v0GenKeys(r, nd) {
			fp, path, _ := v0GenDerivation(r, true)
			u.AddInBip32Derivation(fp, path, k.pub, i)
		}
		if r.Chance(80) {
			order := r.Intn(2)
			for j := 0; j < pl.nsign && j < len(pl.keys); j++ {
				k := pl.keys[j]
				if order == 1 {
					k = pl.keys[len(pl.keys)-1-j]
				}
				u.Sign(i, k.sign(r, ht), k.pub, pl.redeem, pl.ws)
			}
		} else {
			pl.canFinalize = false
		}
		nu := r.Pick(0, 0, 0, 1, 2)
		for j := 0; j < nu; j++ {
			p.Inputs[i].Unknowns = append(p.Inputs[i].Unknowns, v0GenUnknown(r))
		}
		if pl.canFinalize && r.Chance(50) {
			var before *pset.Pset
			if v0FinSink != nil {
				before = v0Clone(p)
			}
			if err := pset.Finalize(p, i); err == nil && v0FinSink != nil {
				v0FinSink(before, i, p)
			}
		}
	}
	for i := range outs {
		if r.Chance(25) {
			u.AddOutRedeemScript(r.Bytes(r.Pick(0, 22, 34)), i)
		}
		if r.Chance(25) {
			u.AddOutWitnessScript(r.Bytes(r.Pick(0, 35, 71)), i)
		}
		nd := r.Pick(0, 0, 1, 2)
		for _, k := range v0GenKeys(r, nd) {
			fp, path, _ := v0GenDerivation(r, true)
			u.AddOutBip32Derivation(fp, path, k.pub, i)
		}
	}
	if r.Chance(15) {
		u.AddInput(transaction.NewTxInput(r.Bytes(32), uint32(r.Intn(5))))
	}
	if r.Chance(15) {
		u.AddOutput(v0GenOutput(r, r.Bytes(r.Pick(0, 22))))
	}
	return p
}

// v0GenDirect builds an arbitrary packet value: any subset of optional fields, including
// values outside what the wire format can carry.
func v0GenDirect(r *Rng) *pset.Pset {
	wild := r.Chance(30)
	p := &pset.Pset{}
	tx := genTx(r, !wild || r.Chance(70))
	if len(tx.Inputs) > 5 {
		tx.Inputs = tx.Inputs[:r.Pick(0, 1, 3, 5)]
	}
	if len(tx.Outputs) > 5 {
		tx.Outputs = tx.Outputs[:r.Pick(0, 1, 3, 5)]
	}
	for _, in := range tx.Inputs {
		if !(wild && r.Chance(10)) {
			in.Script = nil
			in.Witness = nil
		}
	}
	p.UnsignedTx = tx
	optScript := func(pr int) []byte {
		if !r.Chance(pr) {
			return nil
		}
		if r.Chance(4) {
			return r.Bytes(r.Pick(9999, 10000, 10001))
		}
		return v0NonNil(r.Bytes(r.Pick(0, 1, 22, 34, 71, 0xfc, 0xfd, 300)))
	}
	genSig := func(k v0Key) *psbt.PartialSig {
		s := &psbt.PartialSig{PubKey: k.pub, Signature: k.sign(r, byte(r.Pick(1, 1, 0x41, 0x83)))}
		if wild && r.Chance(15) {
			switch r.Intn(4) {
			case 0:
				s.PubKey = r.Bytes(33)
			case 1:
				s.Signature = r.Bytes(r.Pick(0, 8, 71))
			case 2:
				s.PubKey = nil
			default:
				s.Signature = s.Signature[:len(s.Signature)-1-r.Intn(3)]
			}
		}
		return s
	}
	genDers := func(pr int) []*psbt.Bip32Derivation {
		var l []*psbt.Bip32Derivation
		if !r.Chance(pr) {
			return nil
		}
		n := r.Pick(1, 1, 2, 3, 4)
		keys := v0GenKeys(r, n)
		for j := 0; j < n; j++ {
			fp, path, _ := v0GenDerivation(r, true)
			pub := keys[j].pub
			if wild && r.Chance(10) {
				pub = r.Bytes(r.Pick(0, 33, 65))
			}
			l = append(l, &psbt.Bip32Derivation{PubKey: pub, MasterKeyFingerprint: fp, Bip32Path: path})
		}
		if n >= 2 && r.Chance(8) {
			l[n-1].PubKey = l[0].PubKey
		}
		return l
	}
	nin := len(tx.Inputs)
	if wild && r.Chance(15) {
		nin += r.Pick(-1, 1)
		if nin < 0 {
			nin = 0
		}
	}
	for i := 0; i < nin; i++ {
		in := pset.PInput{}
		switch k := r.Intn(100); {
		case k < 25:
			in.NonWitnessUtxo = genTx(r, !wild)
			if r.Chance(25) {
				v0GenBigOutputs(r, in.NonWitnessUtxo)
			}
			if len(in.NonWitnessUtxo.Inputs) > 6 {
				in.NonWitnessUtxo.Inputs = in.NonWitnessUtxo.Inputs[:2]
			}
			if len(in.NonWitnessUtxo.Outputs) > 6 {
				in.NonWitnessUtxo.Outputs = in.NonWitnessUtxo.Outputs[:4]
			}
		case k < 75:
			in.WitnessUtxo = v0GenOutput(r, r.Bytes(r.Pick(0, 1, 1, 22, 23, 34, 0xfc, 0xfd)))
			if wild && r.Chance(30) {
				in.WitnessUtxo.Asset = genAsset(r, true)
				in.WitnessUtxo.Value = genValue(r, true)
				in.WitnessUtxo.Nonce = genNonce(r, true)
			}
		case k < 80 && wild:
			in.NonWitnessUtxo = genTx(r, true)
			in.WitnessUtxo = v0GenOutput(r, r.Bytes(22))
		}
		if r.Chance(60) {
			n := r.Pick(1, 1, 2, 3, 5)
			for _, k := range v0GenKeys(r, n) {
				in.PartialSigs = append(in.PartialSigs, genSig(k))
			}
			if n >= 2 && r.Chance(8) {
				in.PartialSigs[n-1].PubKey = in.PartialSigs[0].PubKey
			}
		}
		if r.Chance(40) {
			in.SighashType = txscript.SigHashType(v0SighashTypes[r.Intn(len(v0SighashTypes))])
			if r.Chance(15) {
				in.SighashType = txscript.SigHashType(uint32(r.U64()))
			}
		}
		in.RedeemScript = optScript(35)
		if in.WitnessUtxo != nil || (wild && r.Chance(20)) {
			in.WitnessScript = optScript(35)
		}
		in.Bip32Derivation = genDers(40)
		if r.Chance(25) {
			in.FinalScriptSig = optScript(70)
			if in.WitnessUtxo != nil || (wild && r.Chance(20)) {
				in.FinalScriptWitness = optScript(60)
			}
			if r.Chance(60) { // as the finalizer leaves it
				in.PartialSigs, in.SighashType, in.RedeemScript, in.WitnessScript, in.Bip32Derivation = nil, 0, nil, nil, nil
			}
		}
		nu := r.Pick(0, 0, 0, 1, 2, 3)
		for j := 0; j < nu; j++ {
			u := v0GenUnknown(r)
			if wild && r.Chance(25) {
				switch r.Intn(4) {
				case 0:
					u.Key = nil
				case 1:
					u.Key[0] = byte(r.Intn(9))
				case 2:
					u.Key = r.Bytes(10001)
					u.Key[0] = 0xfc
				default:
					if len(in.Unknowns) > 0 {
						u = &pset.Unknown{Key: in.Unknowns[0].Key, Value: in.Unknowns[0].Value}
					}
				}
			}
			in.Unknowns = append(in.Unknowns, u)
		}
		p.Inputs = append(p.Inputs, in)
	}
	nout := len(tx.Outputs)
	if wild && r.Chance(10) {
		nout++
	}
	for i := 0; i < nout; i++ {
		o := pset.POutput{}
		o.RedeemScript = optScript(30)
		o.WitnessScript = optScript(30)
		o.Bip32Derivation = genDers(35)
		p.Outputs = append(p.Outputs, o)
	}
	if r.Chance(12) {
		n := r.Pick(1, 2)
		for j := 0; j < n; j++ {
			u := v0GenUnknown(r)
			if r.Chance(50) {
				u.Key[0] = byte(r.Pick(1, 0xfb, 0xfc))
			}
			p.Unknowns = append(p.Unknowns, *u)
		}
	}
	return p
}

func v0CaseLine(tag string, p *pset.Pset) string {
	var b sb
	b.add("v0")
	b.add(tag)
	v0Oracle(&b, p, v0PacketStream(p))
	v0WritePset(&b, p)
	return strings.TrimSpace(b.String())
}

// v0FinSink, when set, receives every successful Finalize of the role-built generator: the
// packet before the call, the input index and the packet after it.
var v0FinSink func(before *pset.Pset, idx int, after *pset.Pset)

// genV0FinCases: `v0fin <idx> <opt final script sig> <opt final script witness> <packet before>`.
// The final scripts are those the finalizer produced (script assembly is outside the codec model);
// what K compares is the whole packet the finalizer leaves, i.e. which fields it clears.
func genV0FinCases(r *Rng, n int, w *bufio.Writer) {
	count := 0
	v0FinSink = func(before *pset.Pset, idx int, after *pset.Pset) {
		if count >= n {
			return
		}
		count++
		var b sb
		b.add("v0fin")
		b.addn(uint64(idx))
		v0WriteOpt(&b, after.Inputs[idx].FinalScriptSig)
		v0WriteOpt(&b, after.Inputs[idx].FinalScriptWitness)
		v0WritePset(&b, before)
		fmt.Fprintln(w, strings.TrimSpace(b.String()))
	}
	defer func() { v0FinSink = nil }()
	for guard := 0; count < n && guard < 50*n+100; guard++ {
		v0GenAPI(r)
	}
}

func runV0Fin(t *Toks) string {
	idx := t.Int()
	v0ReadOpt(t)
	v0ReadOpt(t)
	p := v0ReadPset(t)
	if err := pset.Finalize(p, idx); err != nil {
		return "res=finerr"
	}
	return "res=ok fin=" + v0Dump(p)
}

func genV0Cases(r *Rng, n int, w *bufio.Writer) {
	for i := 0; i < n; i++ {
		if i%2 == 0 {
			fmt.Fprintln(w, v0CaseLine("api", v0GenAPI(r)))
		} else {
			fmt.Fprintln(w, v0CaseLine("direct", v0GenDirect(r)))
		}
	}
}

// ---------- malformed / non-canonical streams ----------

type v0KV struct{ k, v []byte }

// v0Split cuts a stream written by the implementation into its sections of key/value pairs.
func v0Split(bs []byte) (secs [][]v0KV, ok bool) {
	if len(bs) < 5 {
		return nil, false
	}
	bs = bs[5:]
	cur := []v0KV{}
	for len(bs) > 0 {
		n, k, g := v0ReadVarInt(bs)
		if !g || uint64(len(bs)-k) < n {
			return nil, false
		}
		key := bs[k : k+int(n)]
		bs = bs[k+int(n):]
		if n == 0 {
			secs = append(secs, cur)
			cur = []v0KV{}
			continue
		}
		m, k2, g := v0ReadVarInt(bs)
		if !g || uint64(len(bs)-k2) < m {
			return nil, false
		}
		cur = append(cur, v0KV{key, bs[k2 : k2+int(m)]})
		bs = bs[k2+int(m):]
	}
	return secs, true
}

func v0Join(secs [][]v0KV) []byte {
	out := []byte{0x70, 0x73, 0x65, 0x74, 0xff}
	for _, s := range secs {
		for _, kv := range s {
			out = append(out, v0VarBytes(kv.k)...)
			out = append(out, v0VarBytes(kv.v)...)
		}
		out = append(out, 0)
	}
	return out
}

func v0MutateKV(r *Rng, secs [][]v0KV) [][]v0KV {
	if len(secs) == 0 {
		return secs
	}
	si := r.Intn(len(secs))
	s := append([]v0KV{}, secs[si]...)
	cp := func(x []byte) []byte { return append([]byte{}, x...) }
	switch r.Intn(12) {
	case 0: // reorder the pairs of a section
		for i := len(s) - 1; i > 0; i-- {
			j := r.Intn(i + 1)
			s[i], s[j] = s[j], s[i]
		}
	case 1: // duplicate a pair
		if len(s) > 0 {
			s = append(s, s[r.Intn(len(s))])
		}
	case 2: // an unknown pair (global section included)
		u := v0GenUnknown(r)
		at := r.Intn(len(s) + 1)
		s = append(s[:at], append([]v0KV{{u.Key, u.Value}}, s[at:]...)...)
	case 3: // change a key type
		if len(s) > 0 {
			i := r.Intn(len(s))
			k := cp(s[i].k)
			k[0] = byte(r.Pick(0, 1, 2, 3, 4, 5, 6, 7, 8, 9, 0xfc))
			s[i] = v0KV{k, s[i].v}
		}
	case 4: // key data on a key that takes none / strip key data
		if len(s) > 0 {
			i := r.Intn(len(s))
			if len(s[i].k) == 1 {
				s[i] = v0KV{append(cp(s[i].k), r.Bytes(r.Pick(1, 33))...), s[i].v}
			} else {
				s[i] = v0KV{cp(s[i].k[:1]), s[i].v}
			}
		}
	case 5: // drop a pair
		if len(s) > 0 {
			i := r.Intn(len(s))
			s = append(s[:i], s[i+1:]...)
		}
	case 6: // trailing bytes inside a value / shortened value
		if len(s) > 0 {
			i := r.Intn(len(s))
			v := cp(s[i].v)
			if r.Bool() || len(v) == 0 {
				v = append(v, r.Bytes(r.Pick(1, 1, 4))...)
			} else {
				v = v[:len(v)-1-r.Intn(minInt(len(v), 4))]
			}
			s[i] = v0KV{s[i].k, v}
		}
	case 7: // explicit zero sighash type, or a second one
		s = append(s, v0KV{[]byte{3}, []byte{byte(r.Pick(0, 0, 1)), 0, 0, 0}})
	case 8: // final script next to signing fields
		s = append(s, v0KV{[]byte{byte(r.Pick(7, 8))}, r.Bytes(r.Pick(0, 1, 30))})
	case 9: // a 45-byte witness utxo: 44 meaningful bytes and one of padding (or 36 + 8 with a null value)
		if si > 0 {
			v := append(append(append([]byte{1}, r.Bytes(32)...), append([]byte{1}, r.Bytes(8)...)...), 0, 0)
			v = append(v, byte(r.Intn(256)))
			if r.Chance(25) {
				v = append(append(append([]byte{1}, r.Bytes(32)...), 0, 0, 0), r.Bytes(r.Pick(7, 8, 9))...)
			}
			ns := []v0KV{{[]byte{1}, v}}
			for _, kv := range s {
				if kv.k[0] > 1 {
					ns = append(ns, kv)
				}
			}
			s = ns
		}
	case 10: // derivation value of odd shape
		s = append(s, v0KV{append([]byte{byte(r.Pick(2, 6))}, v0NewKey(r).pub...), r.Bytes(r.Pick(0, 4, 7, 8, 12))})
	default: // huge declared key
		s = append(s, v0KV{append([]byte{0xfc}, r.Bytes(r.Pick(9999, 10000))...), r.Bytes(2)})
	}
	out := append([][]v0KV{}, secs...)
	out[si] = s
	if r.Chance(8) { // an extra or a missing section
		if r.Bool() {
			out = append(out, []v0KV{})
		} else if len(out) > 1 {
			out = out[:len(out)-1]
		}
	}
	return out
}

func minInt(a, b int) int {
	if a < b {
		return a
	}
	return b
}

func v0MutateBytes(r *Rng, bs []byte) []byte {
	out := append([]byte{}, bs...)
	if len(out) == 0 {
		return out
	}
	switch r.Intn(7) {
	case 0, 1: // truncation
		return out[:r.Intn(len(out))]
	case 2: // one byte changed
		out[r.Intn(len(out))] ^= byte(1 << uint(r.Intn(8)))
	case 3: // one byte set to a length-ish value
		out[r.Intn(len(out))] = byte(r.Pick(0, 1, 0xfc, 0xfd, 0xfe, 0xff))
	case 4: // insert
		at := r.Intn(len(out) + 1)
		out = append(out[:at], append(r.Bytes(r.Pick(1, 1, 2, 9)), out[at:]...)...)
	case 5: // delete
		at := r.Intn(len(out))
		out = append(out[:at], out[at+1:]...)
	default: // trailing bytes
		out = append(out, r.Bytes(r.Pick(1, 5))...)
	}
	return out
}

func genV0RawCases(r *Rng, n int, w *bufio.Writer) {
	for i := 0; i < n; i++ {
		var p *pset.Pset
		if r.Chance(50) {
			p = v0GenAPI(r)
		} else {
			p = v0GenDirect(r)
		}
		bs := v0PacketStream(p)
		if bs == nil {
			bs = []byte{0x70, 0x73, 0x65, 0x74, 0xff, 0x01, 0x00}
		}
		k := r.Intn(100)
		if k >= 10 { // 10% untouched
			if k < 60 {
				if secs, ok := v0Split(bs); ok {
					bs = v0Join(v0MutateKV(r, secs))
				}
			}
			if k >= 45 {
				bs = v0MutateBytes(r, bs)
			}
		}
		var b sb
		b.add("v0raw")
		v0Oracle(&b, nil, bs)
		b.addh(bs)
		fmt.Fprintln(w, strings.TrimSpace(b.String()))
	}
}

// ---------- what the wire format can carry (mirror of Model/PsetV0.v v0_wf_core / v0_wufloor_all) ----------

const v0MaxKey, v0MaxVal = 10000, 4000000

func v0SerWu(o *transaction.TxOutput) []byte {
	var b []byte
	b = append(b, o.Asset...)
	b = append(b, o.Value...)
	b = append(b, o.Nonce...)
	b = append(b, v0VarBytes(o.Script)...)
	if len(o.Nonce) > 1 {
		b = append(b, v0VarBytes(o.SurjectionProof)...)
		b = append(b, v0VarBytes(o.RangeProof)...)
	}
	return b
}

func v0Sane(in *pset.PInput) bool {
	if in.NonWitnessUtxo != nil && in.WitnessUtxo != nil {
		return false
	}
	if in.WitnessUtxo == nil && (in.WitnessScript != nil || in.FinalScriptWitness != nil) {
		return false
	}
	return true
}

func v0DersOK(l []*psbt.Bip32Derivation, strictPath bool) bool {
	seen := map[string]bool{}
	for _, d := range l {
		if !v0ValidPk(d.PubKey) || 1+len(d.PubKey) > v0MaxKey || 4+4*len(d.Bip32Path) > v0MaxVal {
			return false
		}
		if seen[string(d.PubKey)] {
			return false
		}
		seen[string(d.PubKey)] = true
	}
	return true
}

func v0TxLenOK(tx *transaction.Transaction) bool {
	b, err := tx.Serialize()
	return err == nil && len(b) <= v0MaxVal
}

// v0WfCore: strictPath=false leaves derivations with an empty path inside the domain (the
// updater accepts them; used by the oracle S), strictPath=true is Model v0_wf_core.
func v0WfCore(p *pset.Pset, strictPath bool) bool {
	tx := p.UnsignedTx
	if !wfTx(tx) || !v0TxLenOK(tx) {
		return false
	}
	for _, in := range tx.Inputs {
		if len(in.Script) != 0 || len(in.Witness) != 0 {
			return false
		}
	}
	if len(p.Inputs) != len(tx.Inputs) || len(p.Outputs) != len(tx.Outputs) {
		return false
	}
	for i := range p.Inputs {
		in := &p.Inputs[i]
		if !v0Sane(in) {
			return false
		}
		if in.NonWitnessUtxo != nil && (!wfTx(in.NonWitnessUtxo) || !v0TxLenOK(in.NonWitnessUtxo)) {
			return false
		}
		if o := in.WitnessUtxo; o != nil {
			if !isAsset(o.Asset) || !isValue(o.Value) || !isNonce(o.Nonce) || len(v0SerWu(o)) > v0MaxVal {
				return false
			}
		}
		seen := map[string]bool{}
		for _, s := range in.PartialSigs {
			if !v0ValidPk(s.PubKey) || !v0ValidSig(s.Signature) || 1+len(s.PubKey) > v0MaxKey || len(s.Signature) > v0MaxVal {
				return false
			}
			if seen[string(s.PubKey)] {
				return false
			}
			seen[string(s.PubKey)] = true
		}
		for _, x := range [][]byte{in.RedeemScript, in.WitnessScript, in.FinalScriptSig, in.FinalScriptWitness} {
			if len(x) > v0MaxVal {
				return false
			}
		}
		if !v0DersOK(in.Bip32Derivation, strictPath) {
			return false
		}
		seenU := map[string]bool{}
		for _, u := range in.Unknowns {
			if len(u.Key) == 0 || u.Key[0] <= 8 || len(u.Key) > v0MaxKey || len(u.Value) > v0MaxVal {
				return false
			}
			id := hex.EncodeToString(u.Key) + ":" + hex.EncodeToString(u.Value)
			if seenU[id] {
				return false
			}
			seenU[id] = true
		}
	}
	for i := range p.Outputs {
		o := &p.Outputs[i]
		if len(o.RedeemScript) > v0MaxVal || len(o.WitnessScript) > v0MaxVal || !v0DersOK(o.Bip32Derivation, strictPath) {
			return false
		}
	}
	for _, u := range p.Unknowns { // global: any key type, duplicates allowed, but not the separator
		if len(u.Key) == 0 || len(u.Key) > v0MaxKey || len(u.Value) > v0MaxVal {
			return false
		}
	}
	return true
}

func v0WuFloor(p *pset.Pset) bool {
	for i := range p.Inputs {
		if o := p.Inputs[i].WitnessUtxo; o != nil && len(v0SerWu(o)) < 44 {
			return false
		}
	}
	return true
}

// ---------- runners ----------

// v0Serialize runs ToHex and ToBase64 and insists they describe the same bytes.
func v0Serialize(p *pset.Pset) (bs []byte, status string) {
	h, err1 := p.ToHex()
	b64, err2 := p.ToBase64()
	if (err1 == nil) != (err2 == nil) {
		return nil, "hexb64differ"
	}
	if err1 != nil {
		return nil, "sererr"
	}
	a, e1 := hex.DecodeString(h)
	b, e2 := base64.StdEncoding.DecodeString(b64)
	if e1 != nil || e2 != nil || !bytes.Equal(a, b) {
		return nil, "hexb64differ"
	}
	return a, "ok"
}

// v0Parse runs both parsers on the same bytes and insists they agree.
func v0Parse(bs []byte) (p *pset.Pset, status string) {
	p1, err1 := pset.NewPsetFromHex(hex.EncodeToString(bs))
	p2, err2 := pset.NewPsetFromBase64(base64.StdEncoding.EncodeToString(bs))
	if (err1 == nil) != (err2 == nil) {
		return nil, "parsersdiffer"
	}
	if err1 != nil {
		return nil, "err"
	}
	if v0Dump(p1) != v0Dump(p2) {
		return nil, "parsersdiffer"
	}
	return p1, "ok"
}

func v0WfToks(p *pset.Pset) string {
	core := v0WfCore(p, true)
	return fmt.Sprintf("wf=%s wfcore=%s", b2s(core && v0WuFloor(p)), b2s(core))
}

func runV0(t *Toks) string {
	t.Next() // tag
	v0SkipOracle(t)
	p := v0ReadPset(t)
	wf := v0WfToks(p)
	bs, st := v0Serialize(p)
	if st != "ok" {
		return "res=" + st + " " + wf
	}
	q, st := v0Parse(bs)
	if st != "ok" {
		return fmt.Sprintf("res=ok ser=%s parse=%s %s", hx(bs), st, wf)
	}
	d := v0Dump(q)
	re, st := v0Serialize(q)
	rs := hx(re)
	if st != "ok" {
		rs = st
	}
	return fmt.Sprintf("res=ok ser=%s parse=%s reser=%s %s", hx(bs), d, rs, wf)
}

func runV0Raw(t *Toks) string {
	v0SkipOracle(t)
	bs := t.Hex()
	q, st := v0Parse(bs)
	if st == "err" {
		return "res=none"
	}
	if st != "ok" {
		return "res=" + st
	}
	d := v0Dump(q)
	wf := v0WfToks(q)
	re, st := v0Serialize(q)
	rs := hx(re)
	if st != "ok" {
		rs = st
	}
	return fmt.Sprintf("res=ok parse=%s reser=%s %s", d, rs, wf)
}

// sorted copies used by the oracle (partial signatures and derivations are sets keyed by pubkey)
func v0SortedSigs(l []*psbt.PartialSig) []*psbt.PartialSig {
	c := append([]*psbt.PartialSig{}, l...)
	sort.SliceStable(c, func(i, j int) bool { return bytes.Compare(c[i].PubKey, c[j].PubKey) < 0 })
	return c
}
func v0SortedDers(l []*psbt.Bip32Derivation) []*psbt.Bip32Derivation {
	c := append([]*psbt.Bip32Derivation{}, l...)
	sort.SliceStable(c, func(i, j int) bool { return bytes.Compare(c[i].PubKey, c[j].PubKey) < 0 })
	return c
}

func init() {
	gens["v0"] = genV0Cases
	gens["v0raw"] = genV0RawCases
	runs["v0"] = runV0
	runs["v0raw"] = runV0Raw
	gens["v0fin"] = genV0FinCases
	runs["v0fin"] = runV0Fin
}
