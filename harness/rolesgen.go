package main

// C11 — generator of operation histories (family "hist"): random role operations (about
// 60 % with valid arguments) interleaved with coherent scenarios (attach a utxo, sign with
// the matching key and scripts, finalize; add a confidential output and blind it), from
// every small start shape. Every random choice comes from the *Rng.

import (
	"bufio"
	"fmt"
	"strconv"
	"strings"
)

// ---------------------------------------------------------------- generator

type histGen struct {
	r    *Rng
	b    *sb
	nin  int // model-free guesses used only to bias indexes towards the valid range
	nout int
	used map[string]bool
	ins  [][2]int // (t, idx) of the inputs the generator believes exist
	cnt  int      // operations emitted
}

var genScripts = []string{"wpkh0", "wpkh1", "pkh0", "sh.wpkh0", "wsh.ms2", "wsh.ms1", "sh.ms1", "sh.wsh.ms2", "tr", "ms1", "ms2", "e", "n", "junk", "pkh1", "sh.ms2"}
var outScripts = []string{"wpkh0", "wpkh1", "pkh0", "sh.wpkh0", "wsh.ms2", "tr", "e", "n"}

func (g *histGen) inIndex(guardNeg bool) int {
	r := g.r
	if g.nin > 0 && r.Chance(85) {
		return r.Intn(g.nin)
	}
	if guardNeg && r.Chance(30) {
		return -1 - r.Intn(2)
	}
	return g.nin + r.Intn(2)
}
func (g *histGen) outIndex() int {
	if g.nout > 0 && g.r.Chance(85) {
		return g.r.Intn(g.nout)
	}
	return g.nout + g.r.Intn(2)
}

func (g *histGen) inArg(valid bool) {
	r := g.r
	cls := 0
	if !valid {
		cls = r.Pick(0, 1, 2, 3)
	}
	t, idx := r.Intn(nPrevTx), r.Pick(0, 0, 1, 2, 3, 4, 5, 6)
	if !valid && len(g.ins) > 0 && r.Chance(45) {
		// a well-formed argument that spends an outpoint the packet already has (any sequence / locktimes)
		cls = 0
		e := g.ins[r.Intn(len(g.ins))]
		t, idx = e[0], e[1]
	}
	if valid {
		for tries := 0; tries < 8 && g.used[fmt.Sprint(t, ":", idx)]; tries++ {
			t, idx = r.Intn(nPrevTx), r.Intn(6)
		}
	}
	g.used[fmt.Sprint(t, ":", idx)] = true
	g.ins = append(g.ins, [2]int{t, idx})
	seq := uint64(r.Pick(0, 0, 0xffffffff, 0xfffffffe, 5))
	var height, tm uint64
	switch r.Intn(10) {
	case 0, 1:
		height = uint64(r.Pick(100, 200, 499999999))
	case 2, 3:
		tm = uint64(r.Pick(500000005, 600000000))
	case 4:
		height, tm = uint64(r.Pick(100, 300)), uint64(r.Pick(500000005, 600000000))
	}
	g.b.addn(uint64(cls))
	g.b.addn(uint64(t))
	g.b.addn(uint64(idx))
	g.b.addn(seq)
	g.b.addn(height)
	g.b.addn(tm)
}

func (g *histGen) outArg(valid bool) {
	r := g.r
	cls := 0
	script := outScripts[r.Intn(len(outScripts))]
	bk := r.Pick(0, 0, 1)
	if !valid {
		switch r.Intn(4) {
		case 0:
			cls = r.Pick(1, 2, 3)
		case 1:
			script = "junk"
		case 2:
			bk = 2
		default:
			cls = 3
		}
	}
	g.b.addn(uint64(cls))
	g.b.addn(uint64(r.Pick(0, 1000, 5000, 1)))
	g.b.add(script)
	g.b.add([]string{"-", "k2", "bad"}[bk])
	g.b.addn(uint64(r.Pick(0, 0, 0, 1, 2)))
}

func (g *histGen) addr(valid bool) string {
	if valid {
		return []string{"u0", "c0"}[g.r.Intn(2)]
	}
	return []string{"-", "bad", "u0", "c0"}[g.r.Intn(4)]
}

func (g *histGen) op() {
	r, b := g.r, g.b
	g.cnt++
	valid := r.Chance(60)
	// arguments that leave a packet which fails its own SanityCheck poison the rest of the history: keep them rarer
	mild := valid || r.Chance(60)
	sc := func() string { return genScripts[r.Intn(len(genScripts))] }
	key := func() string {
		if valid || r.Chance(70) {
			return []string{"k0", "k1", "k2"}[r.Intn(3)]
		}
		return "bad"
	}
	switch r.Intn(34) {
	case 0:
		b.add("setmod")
		b.add([]string{"nil", "0", "1", "2", "3", "4", "5", "6", "7"}[r.Intn(9)])
	case 1, 2, 3:
		b.add("addins")
		n := r.Pick(1, 1, 2, 0, 3)
		b.addn(uint64(n))
		for i := 0; i < n; i++ {
			g.inArg(valid || i+1 < n)
		}
		g.nin += n
	case 4, 5, 6:
		b.add("addouts")
		n := r.Pick(1, 1, 2, 0)
		b.addn(uint64(n))
		for i := 0; i < n; i++ {
			g.outArg(valid || i+1 < n)
		}
		g.nout += n
	case 7, 8:
		b.add("nwutxo")
		b.add(strconv.Itoa(g.inIndex(false)))
		b.addn(uint64(r.Intn(nPrevTx)))
	case 9, 10:
		b.add("wutxo")
		b.add(strconv.Itoa(g.inIndex(false)))
		if !valid && r.Chance(20) {
			b.add("nil")
		} else {
			b.add([]string{"wpkh0", "wpkh1", "sh.wpkh0", "wsh.ms2", "wsh.ms1", "sh.wsh.ms2", "tr", "pkh0", "junk", "e"}[r.Intn(10)])
		}
		b.add(b01(r.Chance(25)))
	case 11:
		b.add("redeem")
		b.add(strconv.Itoa(g.inIndex(false)))
		b.add(sc())
	case 12:
		if !mild || r.Chance(50) {
			b.add("wscript")
			b.add(strconv.Itoa(g.inIndex(false)))
			b.add(sc())
		} else {
			b.add("redeem")
			b.add(strconv.Itoa(g.inIndex(false)))
			b.add(sc())
		}
	case 13:
		b.add("bip32")
		b.add(strconv.Itoa(g.inIndex(false)))
		b.add(key())
		b.addn(uint64(r.Pick(1, 2, 3, 0)))
	case 14:
		b.add("sighash")
		b.add(strconv.Itoa(g.inIndex(false)))
		b.addn(uint64(r.Pick(1, 1, 3, 0x81, 0, 2, 0x41)))
	case 15:
		b.add("utxorp")
		b.add(strconv.Itoa(g.inIndex(false)))
		b.add(b01(r.Chance(70)))
	case 16:
		b.add("expasset")
		b.add(strconv.Itoa(g.inIndex(false)))
		b.add(b01(valid || r.Bool()))
		b.add(b01(valid || r.Bool()))
	case 17:
		b.add("expvalue")
		b.add(strconv.Itoa(g.inIndex(false)))
		b.addn(uint64(r.Pick(1000, 1, 0)))
		b.add(b01(valid || r.Bool()))
	case 18, 19:
		b.add("issue")
		b.add(strconv.Itoa(g.inIndex(true)))
		if valid {
			b.addn(uint64(r.Pick(0, 8)))
			b.addn(uint64(r.Pick(0, 1)))
		} else {
			b.addn(uint64(r.Pick(0, 8, 9)))
			b.addn(uint64(r.Pick(0, 1, 2)))
		}
		b.addn(uint64(r.Pick(1000, 0, 1)))
		b.addn(uint64(r.Pick(0, 1, 5)))
		b.add(g.addr(valid))
		b.add(g.addr(valid))
		b.add(b01(r.Bool()))
		g.nout++
	case 20:
		b.add("reissue")
		b.add(strconv.Itoa(g.inIndex(true)))
		if valid {
			b.add("0 0")
			b.addn(uint64(r.Pick(1000, 1)))
			b.add(g.addr(true))
			b.addn(uint64(r.Pick(1, 5)))
			b.add(g.addr(true))
		} else {
			b.addn(uint64(r.Pick(0, 1, 2)))
			b.addn(uint64(r.Pick(0, 1)))
			b.addn(uint64(r.Pick(1000, 0)))
			b.add(g.addr(false))
			b.addn(uint64(r.Pick(1, 0)))
			b.add(g.addr(false))
		}
		g.nout += 2
	case 21:
		b.add([]string{"tapik", "tapmr"}[r.Intn(2)])
		b.add(strconv.Itoa(g.inIndex(false)))
		if mild {
			b.add("32")
		} else {
			b.addn(uint64(r.Pick(32, 31, 0, 33)))
		}
	case 22:
		b.add("tapleaf")
		b.add(strconv.Itoa(g.inIndex(false)))
		if mild {
			b.addn(uint64(r.Intn(2)))
		} else {
			b.addn(uint64(r.Intn(3)))
		}
	case 23:
		b.add("tapbip32")
		b.add(strconv.Itoa(g.inIndex(false)))
		b.add([]string{"k0", "k1"}[r.Intn(2)])
		if mild {
			b.addn(uint64(r.Pick(1, 2)))
			b.add("32 1")
		} else {
			b.addn(uint64(r.Pick(0, 1, 2)))
			b.addn(uint64(r.Pick(32, 31)))
			b.addn(uint64(r.Pick(0, 1)))
		}
	case 24:
		b.add([]string{"oredeem", "owscript"}[r.Intn(2)])
		b.add(strconv.Itoa(g.outIndex()))
		b.add(sc())
	case 25:
		b.add("obip32")
		b.add(strconv.Itoa(g.outIndex()))
		b.add(key())
		b.addn(uint64(r.Pick(1, 2, 0)))
	case 26, 27, 28:
		b.add("sign")
		b.add(strconv.Itoa(g.inIndex(true)))
		b.add(b01(!valid && r.Chance(30)))
		b.addn(uint64(r.Pick(1, 1, 1, 3, 0x81)))
		b.add(key())
		if r.Chance(60) {
			b.add("n")
		} else {
			b.add(sc())
		}
		if r.Chance(60) {
			b.add("n")
		} else {
			b.add(sc())
		}
	case 29:
		b.add("tapkeysig")
		b.add(strconv.Itoa(g.inIndex(true)))
		if mild {
			b.addn(uint64(r.Pick(64, 65)))
		} else {
			b.addn(uint64(r.Pick(64, 63, 0, 66)))
		}
	case 30:
		b.add("tapscriptsig")
		b.add(strconv.Itoa(g.inIndex(true)))
		if mild {
			b.add("32 64")
			b.addn(uint64(r.Intn(2)))
			b.add("1")
		} else {
			b.addn(uint64(r.Pick(32, 31)))
			b.addn(uint64(r.Pick(64, 65, 63)))
			b.addn(uint64(r.Intn(3)))
			b.add(b01(r.Bool()))
		}
		b.addn(uint64(r.Intn(2)))
	case 31:
		b.add("blind")
		b.add(b01(r.Bool()))
		no := r.Pick(1, 1, 2, 0)
		b.addn(uint64(no))
		for i := 0; i < no; i++ {
			if g.nin > 0 && r.Chance(85) {
				b.addn(uint64(r.Intn(g.nin)))
			} else {
				b.addn(uint64(g.nin + r.Intn(2)))
			}
		}
		ni := r.Pick(0, 0, 1)
		b.addn(uint64(ni))
		for i := 0; i < ni; i++ {
			if g.nin > 0 && r.Chance(85) {
				b.addn(uint64(r.Intn(g.nin)))
			} else {
				b.addn(uint64(g.nin + r.Intn(2)))
			}
			if valid {
				b.add(b01(r.Chance(70)))
			} else {
				b.addn(uint64(r.Pick(0, 1, 1, 2)))
			}
		}
		// distinct output indexes (sort.Slice is not stable)
		var idxs []int
		seen := map[int]bool{}
		nb := r.Pick(1, 1, 2, 0, 3)
		for i := 0; i < nb; i++ {
			x := g.outIndex()
			if !seen[x] {
				seen[x] = true
				idxs = append(idxs, x)
			}
		}
		b.addn(uint64(len(idxs)))
		for _, x := range idxs {
			b.addn(uint64(x))
			if valid {
				b.add("0")
			} else {
				b.addn(uint64(r.Pick(0, 0, 1, 2, 3)))
			}
		}
		for i := 0; i < 4; i++ {
			b.add(b01(valid || r.Chance(80)))
		}
		if valid {
			b.add("0")
		} else {
			b.addn(uint64(r.Pick(0, 0, 1, 2, 3)))
		}
		b.addn(uint64(g.cnt % 250)) // scalar id: distinct within a history, as real scalars are
	case 32:
		if r.Bool() {
			b.add("finalize")
			// Finalize indexes its slice directly: out-of-range panics (modelled)
			b.add(strconv.Itoa(g.inIndex(false)))
		} else {
			b.add("maybefinalize")
			b.add(strconv.Itoa(g.inIndex(false)))
		}
	default:
		b.add([]string{"finalizeall", "maybefinalizeall"}[r.Intn(2)])
	}
}

// emit writes one operation given as a string, now and then perturbing one numeric token
func (g *histGen) emit(op string) {
	g.cnt++
	if g.r.Chance(8) && !strings.HasPrefix(op, "add") && !strings.HasPrefix(op, "blind") {
		toks := strings.Split(op, " ")
		k := 1 // the index argument
		if k < len(toks) {
			if n, err := strconv.Atoi(toks[k]); err == nil {
				toks[k] = strconv.Itoa(n + g.r.Pick(1, 1, 2))
			}
		}
		op = strings.Join(toks, " ")
	}
	g.b.add(op)
	if g.r.Chance(15) {
		g.op()
	}
}

func (g *histGen) finish(i int) {
	switch g.r.Intn(6) {
	case 0, 1:
		g.emit(fmt.Sprintf("finalize %d", i))
	case 2:
		g.emit(fmt.Sprintf("maybefinalize %d", i))
	case 3:
		g.emit("finalizeall")
	case 4:
		g.emit("maybefinalizeall")
	}
	if g.r.Chance(40) {
		// something after finalization
		switch g.r.Intn(5) {
		case 0:
			g.emit(fmt.Sprintf("sign %d 0 1 k1 n n", i))
		case 1:
			g.emit(fmt.Sprintf("issue %d 0 0 1000 0 u0 - 0", i))
		case 2:
			g.emit(fmt.Sprintf("finalize %d", i))
		case 3:
			g.emit("finalizeall")
		default:
			g.emit(fmt.Sprintf("tapkeysig %d 64", i))
		}
	}
}

// freshInput adds an input spending output idx of an unused previous transaction and returns its index
func (g *histGen) freshInput(idx int) int {
	for t := 0; t < nPrevTx; t++ {
		if !g.used[fmt.Sprint(t, ":", idx)] {
			g.used[fmt.Sprint(t, ":", idx)] = true
			g.ins = append(g.ins, [2]int{t, idx})
			g.emit(fmt.Sprintf("addins 1 0 %d %d 0 0 0", t, idx))
			g.nin++
			return g.nin - 1
		}
	}
	return -1
}

func (g *histGen) scenario() {
	r := g.r
	if g.nin == 0 {
		g.freshInput(r.Intn(6))
	}
	i := r.Intn(g.nin)
	switch r.Intn(13) {
	case 12:
		g.scenarioSignedLocktime(i)
		return
	case 10:
		g.scenarioSigOrder(i)
		return
	case 11:
		g.scenarioFinalizedIssuance()
		return
	}
	ht := r.Pick(1, 1, 1, 1, 3)
	if ht != 1 {
		g.emit(fmt.Sprintf("sighash %d %d", i, ht))
	}
	switch r.Intn(10) {
	case 0:
		k := r.Intn(3)
		g.emit(fmt.Sprintf("wutxo %d wpkh%d %s", i, k, b01(r.Chance(20))))
		g.emit(fmt.Sprintf("sign %d 0 %d k%d n n", i, ht, k))
		g.finish(i)
	case 1:
		g.emit(fmt.Sprintf("wutxo %d sh.wpkh0 0", i))
		g.emit(fmt.Sprintf("sign %d 0 %d k0 wpkh0 n", i, ht))
		g.finish(i)
	case 2:
		m := r.Pick(1, 2, 2)
		g.emit(fmt.Sprintf("wutxo %d wsh.ms%d 0", i, m))
		g.emit(fmt.Sprintf("sign %d 0 %d k0 n ms%d", i, ht, m))
		if m == 2 || r.Chance(30) {
			g.emit(fmt.Sprintf("sign %d 0 %d k%d n n", i, ht, r.Pick(1, 1, 1, 2)))
		}
		g.finish(i)
	case 3:
		g.emit(fmt.Sprintf("wutxo %d sh.wsh.ms2 0", i))
		g.emit(fmt.Sprintf("sign %d 0 %d k0 wsh.ms2 ms2", i, ht))
		g.emit(fmt.Sprintf("sign %d 0 %d k1 n n", i, ht))
		g.finish(i)
	case 4:
		if j := g.freshInput(1); j >= 0 {
			g.emit(fmt.Sprintf("nwutxo %d %d", j, g.ins[len(g.ins)-1][0]))
			g.emit(fmt.Sprintf("sign %d 0 1 k0 n n", j))
			g.finish(j)
		}
	case 5:
		if j := g.freshInput(4); j >= 0 {
			g.emit(fmt.Sprintf("nwutxo %d %d", j, g.ins[len(g.ins)-1][0]))
			g.emit(fmt.Sprintf("sign %d 0 1 k%d ms1 n", j, r.Intn(2)))
			g.finish(j)
		}
	case 6:
		// non-witness utxo of a segwit output: SignInput converts it
		if j := g.freshInput(r.Pick(0, 0, 2, 3, 6)); j >= 0 {
			g.emit(fmt.Sprintf("nwutxo %d %d", j, g.ins[len(g.ins)-1][0]))
			if r.Chance(30) {
				g.emit(fmt.Sprintf("utxorp %d 1", j))
				g.emit(fmt.Sprintf("expvalue %d 1000 1", j))
			}
			if r.Chance(40) {
				// a signing attempt that fails after the utxo conversion (bad signature / bad key / wrong key)
				g.emit(fmt.Sprintf("sign %d %s", j, []string{"1 1 k0 n n", "0 1 bad n n", "0 1 k1 n n"}[r.Intn(3)]))
			}
			g.emit(fmt.Sprintf("sign %d 0 1 k0 n n", j))
			g.finish(j)
		}
	case 7:
		g.emit(fmt.Sprintf("wutxo %d tr 0", i))
		if r.Bool() {
			g.emit(fmt.Sprintf("tapkeysig %d %d", i, r.Pick(64, 65)))
		} else {
			l := r.Intn(2)
			g.emit(fmt.Sprintf("tapleaf %d %d", i, l))
			g.emit(fmt.Sprintf("tapscriptsig %d 32 64 %d 1 %d", i, l, l))
			if r.Chance(30) {
				g.emit(fmt.Sprintf("tapscriptsig %d 32 64 %d 1 %d", i, 1-l, r.Intn(2)))
			}
		}
		g.finish(i)
	default:
		// blinding: every input gets a utxo, one output to blind is owned by input i
		for j := 0; j < g.nin; j++ {
			if r.Chance(85) {
				g.emit(fmt.Sprintf("wutxo %d wpkh0 %s", j, b01(r.Chance(30))))
			}
		}
		if r.Chance(40) {
			g.emit(fmt.Sprintf("issue %d 0 0 1000 %d c0 c0 %s", i, r.Pick(0, 5), b01(r.Bool())))
			g.nout += 2
		}
		nb := r.Pick(1, 1, 2)
		first := g.nout
		for k := 0; k < nb; k++ {
			g.emit(fmt.Sprintf("addouts 1 0 1000 wpkh1 k2 %d", i))
			g.nout++
		}
		if r.Chance(30) {
			g.emit("addouts 1 0 500 e - 0")
			g.nout++
		}
		last := r.Chance(60)
		var outs []string
		for k := 0; k < nb; k++ {
			if k == 0 || r.Chance(70) {
				outs = append(outs, fmt.Sprintf("%d %d", first+k, r.Pick(0, 0, 0, 0, 0, 0, 0, 0, 0, 3)))
			}
		}
		iss := "0"
		if r.Chance(30) {
			iss = fmt.Sprintf("1 %d %d", i, r.Pick(1, 1, 1, 1, 2))
		}
		gf := 0
		if r.Chance(15) {
			gf = r.Pick(1, 2, 3)
		}
		g.emit(fmt.Sprintf("blind %s 1 %d %s %d %s 1 1 1 1 %d %d", b01(last), i, iss, len(outs), strings.Join(outs, " "), gf, g.cnt%250))
		if !last && r.Chance(60) {
			g.emit(fmt.Sprintf("blind 1 1 %d 0 1 %d 0 1 1 1 1 0 %d", i, first+nb-1, g.cnt%250))
		}
		if r.Chance(50) {
			g.emit(fmt.Sprintf("sign %d 0 1 k0 n n", i))
			g.finish(i)
		}
	}
}

// scenarioSigOrder: a multisig input carrying two partial signatures in either key order, then a
// FinalizeAll that fails at or after it (a later input without signatures, or a signer outside the script):
// the failing call must not touch the stored signatures, their order included.
func (g *histGen) scenarioSigOrder(i int) {
	r := g.r
	g.emit(fmt.Sprintf("wutxo %d wsh.ms2 0", i))
	keys := [][2]int{{0, 1}, {1, 0}, {2, 0}, {0, 2}, {2, 1}, {1, 2}}[r.Intn(6)]
	g.emit(fmt.Sprintf("sign %d 0 1 k%d n ms2", i, keys[0]))
	g.emit(fmt.Sprintf("sign %d 0 1 k%d n n", i, keys[1]))
	if r.Chance(60) {
		g.freshInput(r.Intn(6)) // a later input that cannot be finalized yet
	}
	g.emit([]string{"finalizeall", "finalizeall", "maybefinalizeall"}[r.Intn(3)])
	if r.Chance(30) {
		g.emit(fmt.Sprintf("finalize %d", i))
	}
}

// scenarioFinalizedIssuance: an issuance on an input other than 0, that input signed (SIGHASH_NONE, so that
// unblinded outputs do not block the signer) and finalized while the others are not, then a blinder call whose
// issuance blinding arguments name that input (list position 0, input index >= 1): it must be refused.
func (g *histGen) scenarioFinalizedIssuance() {
	r := g.r
	for g.nin < 2 {
		if g.freshInput(r.Intn(6)) < 0 {
			return
		}
	}
	j := 1 + r.Intn(g.nin-1)
	for k := 0; k < g.nin; k++ {
		g.emit(fmt.Sprintf("wutxo %d wpkh0 0", k))
	}
	g.emit(fmt.Sprintf("issue %d 0 0 1000 %d c0 c0 %s", j, r.Pick(0, 5), b01(r.Bool())))
	out := g.nout
	g.nout += 2
	g.emit(fmt.Sprintf("sighash %d 2", j))
	g.emit(fmt.Sprintf("sign %d 0 2 k0 n n", j))
	g.emit(fmt.Sprintf("finalize %d", j))
	if r.Bool() {
		// multi-party shape: the blinder owns another input (and an unblinded output of its own), the issuance
		// blinding arguments still name the finalized input, which it does not own
		k := r.Intn(g.nin - 1)
		if k >= j {
			k++
		}
		g.emit(fmt.Sprintf("addouts 1 0 1000 wpkh1 k2 %d", k))
		mine := g.nout
		g.nout++
		g.emit(fmt.Sprintf("blind %s 1 %d 1 %d 1 1 %d 0 1 1 1 1 0 %d", b01(r.Bool()), k, j, mine, g.cnt%250))
		if r.Chance(40) {
			g.emit(fmt.Sprintf("blind 0 1 %d 0 1 %d 0 1 1 1 1 0 %d", k, mine, g.cnt%250))
		}
		return
	}
	g.emit(fmt.Sprintf("blind %s 1 %d 1 %d 1 1 %d 0 1 1 1 1 0 %d", b01(r.Bool()), j, j, out, g.cnt%250))
	if r.Chance(40) {
		// the same call without issuance arguments is fine
		g.emit(fmt.Sprintf("blind 1 1 %d 0 1 %d 0 1 1 1 1 0 %d", j, out, g.cnt%250))
	}
}

// scenarioSignedLocktime: an input is signed first, then inputs are added with a height lock, a time lock, both
// and none: under partial signatures only additions that leave Locktime() where it is may be accepted.
func (g *histGen) scenarioSignedLocktime(i int) {
	r := g.r
	k := r.Intn(3)
	g.emit(fmt.Sprintf("wutxo %d wpkh%d 0", i, k))
	g.emit(fmt.Sprintf("sign %d 0 1 k%d n n", i, k))
	for n := 1 + r.Intn(3); n > 0; n-- {
		var height, tm int
		switch r.Intn(5) {
		case 0:
			height = r.Pick(120, 77, 100, 300)
		case 1:
			tm = r.Pick(500000005, 600000000, 500000100)
		case 2:
			height, tm = r.Pick(120, 100), r.Pick(500000005, 600000000)
		case 3:
			height = r.Pick(0, 0, 77)
		}
		for t := 0; t < nPrevTx; t++ {
			idx := r.Intn(6)
			if !g.used[fmt.Sprint(t, ":", idx)] {
				g.used[fmt.Sprint(t, ":", idx)] = true
				g.ins = append(g.ins, [2]int{t, idx})
				g.emit(fmt.Sprintf("addins 1 0 %d %d 0 %d %d", t, idx, height, tm))
				g.nin++
				break
			}
		}
	}
	if r.Chance(40) {
		g.finish(i)
	}
}

func genHist(r *Rng, n int, w *bufio.Writer) {
	vocab()
	for c := 0; c < n; c++ {
		g := &histGen{r: r, b: &sb{}, used: map[string]bool{}}
		g.b.add("hist")
		// start shape: 0..2 inputs, 0..2 outputs, every modifiable-flag combination through a leading setmod
		nin, nout := c%3, (c/3)%3
		if r.Chance(5) {
			nin = 3
		}
		g.b.addn(uint64(nin))
		for i := 0; i < nin; i++ {
			g.inArg(r.Chance(95))
		}
		g.b.addn(uint64(nout))
		for i := 0; i < nout; i++ {
			g.outArg(r.Chance(95))
		}
		g.nin, g.nout = nin, nout
		if r.Chance(40) {
			g.b.add("n")
		} else {
			g.b.addn(uint64(r.Pick(0, 77, 500000100)))
		}
		maxLen := 12
		if n > 2000 {
			maxLen = 40
		}
		nops := 1 + r.Intn(maxLen)
		ops := &sb{}
		outer := g.b
		g.b = ops
		flagSel := (c / 9) % 12
		if flagSel < 9 {
			ops.add("setmod")
			ops.add([]string{"nil", "0", "1", "2", "3", "4", "5", "6", "7"}[flagSel])
			g.cnt++
		}
		for g.cnt < nops {
			if r.Chance(35) {
				g.scenario()
			} else {
				g.op()
			}
		}
		outer.addn(uint64(g.cnt))
		fmt.Fprintln(w, strings.TrimSpace(outer.String())+" "+strings.TrimSpace(ops.String()))
	}
}

func init() {
	gens["hist"] = genHist
	runs["hist"] = runHist
}
