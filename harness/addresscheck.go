package main

import (
	"bytes"
	"fmt"
	"strings"

	"github.com/btcsuite/btcd/btcec/v2"
	"github.com/btcsuite/btcd/btcutil/bech32"
	"github.com/vulpemventures/go-elements/address"
	"github.com/vulpemventures/go-elements/blech32"
	"github.com/vulpemventures/go-elements/network"
	"github.com/vulpemventures/go-elements/payment"
)

// Implementation-side oracle (S) for C14: every clause of the property stated on the
// real API.  Used to search for a failing input, never as evidence.

var adrTypesUnconf = []int{address.P2Pkh, address.P2Sh, address.P2Wpkh, address.P2Wsh, address.P2TR}
var adrTypesConf = []int{address.ConfidentialP2Pkh, address.ConfidentialP2Sh, address.ConfidentialP2Wpkh,
	address.ConfidentialP2Wsh, address.ConfidentialP2TR}

// the output script written out by hand (independent of txscript and of the library)
func adrExpectedScript(ty int, payload []byte) []byte {
	switch ty {
	case 0:
		return append(append([]byte{0x76, 0xa9, byte(len(payload))}, payload...), 0x88, 0xac)
	case 1:
		return append(append([]byte{0xa9, byte(len(payload))}, payload...), 0x87)
	case 4:
		return append([]byte{0x51, byte(len(payload))}, payload...)
	default:
		return append([]byte{0x00, byte(len(payload))}, payload...)
	}
}

func adrVersionByte(net *network.Network, ty int) byte {
	switch ty {
	case 0:
		return net.PubKeyHash
	case 1:
		return net.ScriptHash
	case 4:
		return 1
	}
	return 0
}

// bech32 constant that matched: "bech32", "bech32m" or ""
func bechConst(s string) string {
	_, _, v, err := bech32.DecodeGeneric(s)
	if err != nil {
		return ""
	}
	if v == bech32.Version0 {
		return "bech32"
	}
	if v == bech32.VersionM {
		return "bech32m"
	}
	return ""
}

func checkC14Form(t *Toks) string {
	net := adrNets[t.Int()]
	ty := t.Int()
	payload, key := t.Hex(), t.Hex()
	bk, err := btcec.ParsePubKey(key)
	if err != nil {
		return "SKIP bad-key"
	}
	ver := adrVersionByte(net, ty)
	want := adrExpectedScript(ty, payload)

	// ---- unconfidential form ----
	u, err := adrEncode(net, ty, payload, nil)
	if err != nil {
		return fail("encode-unconf", fmt.Sprintf("type=%d", ty))
	}
	if ty <= 1 {
		d, err := address.FromBase58(u)
		if err != nil || d.Version != ver || !bytes.Equal(d.Data, payload) {
			return fail("roundtrip-base58", fmt.Sprintf("type=%d", ty))
		}
		if address.ToBase58(d) != u {
			return fail("reencode-base58", fmt.Sprintf("type=%d", ty))
		}
	} else {
		d, err := address.FromBech32(u)
		if err != nil || d.Prefix != net.Bech32 || d.Version != ver || !bytes.Equal(d.Program, payload) {
			return fail("roundtrip-bech32", fmt.Sprintf("type=%d", ty))
		}
		if r, err := address.ToBech32(d); err != nil || r != u {
			return fail("reencode-bech32", fmt.Sprintf("type=%d", ty))
		}
		want0 := "bech32"
		if ty == 4 {
			want0 = "bech32m"
		}
		if bechConst(u) != want0 {
			return fail("encode-constant", fmt.Sprintf("type=%d/%s", ty, bechConst(u)))
		}
	}
	if f := c14Recognised(u, net, adrTypesUnconf[ty], false, want, "unconf"); f != "" {
		return f
	}

	// ---- the payment builder for the same payload ----
	p, err := payment.FromScript(want, net, bk)
	if err != nil {
		return fail("payment-fromscript", fmt.Sprintf("type=%d", ty))
	}
	var pa, pc string
	var ps []byte
	var e1, e2 error
	switch ty {
	case 0:
		pa, e1 = p.PubKeyHash()
		pc, e2 = p.ConfidentialPubKeyHash()
		ps = p.Script
	case 1:
		pa, e1 = p.ScriptHash()
		pc, e2 = p.ConfidentialScriptHash()
		ps = p.Script
	case 2:
		pa, e1 = p.WitnessPubKeyHash()
		pc, e2 = p.ConfidentialWitnessPubKeyHash()
		ps = p.WitnessScript
	case 3:
		pa, e1 = p.WitnessScriptHash()
		pc, e2 = p.ConfidentialWitnessScriptHash()
		ps = p.WitnessScript
	case 4:
		pa, e1 = p.TaprootAddress()
		pc, e2 = p.ConfidentialTaprootAddress()
		ps = p.Script
	}
	if e1 != nil || pa != u {
		return fail("payment-address", fmt.Sprintf("type=%d", ty))
	}
	if !bytes.Equal(ps, want) {
		return fail("payment-script", fmt.Sprintf("type=%d", ty))
	}

	// ---- confidential form ----
	c, err := adrEncode(net, ty, payload, key)
	if err != nil {
		return fail("encode-conf", fmt.Sprintf("type=%d", ty))
	}
	if e2 != nil || pc != c {
		return fail("payment-conf-address", fmt.Sprintf("type=%d", ty))
	}
	if c2, err := address.ToConfidential(&address.AddressInfo{Address: u, BlindingKey: cp(key)}); err != nil || c2 != c {
		return fail("to-confidential", fmt.Sprintf("type=%d", ty))
	}
	fc, err := address.FromConfidential(c)
	if err != nil || fc.Address != u || !bytes.Equal(fc.BlindingKey, key) || !bytes.Equal(fc.Script, want) {
		return fail("from-confidential", fmt.Sprintf("type=%d", ty))
	}
	if ty <= 1 {
		d, err := address.FromBase58Confidential(c)
		if err != nil || d.Version != net.Confidential || d.Base58.Version != ver ||
			!bytes.Equal(d.PublicKey, key) || !bytes.Equal(d.Data, payload) {
			return fail("roundtrip-base58-conf", fmt.Sprintf("type=%d", ty))
		}
		if address.ToBase58Confidential(d) != c {
			return fail("reencode-base58-conf", fmt.Sprintf("type=%d", ty))
		}
	} else {
		d, err := address.FromBlech32(c)
		if err != nil || d.Prefix != net.Blech32 || d.Version != ver ||
			!bytes.Equal(d.PublicKey, key) || !bytes.Equal(d.Program, payload) {
			return fail("roundtrip-blech32", fmt.Sprintf("type=%d", ty))
		}
		d.PublicKey = cp(d.PublicKey)
		if r, err := address.ToBlech32(d); err != nil || r != c {
			return fail("reencode-blech32", fmt.Sprintf("type=%d", ty))
		}
	}
	if f := c14Recognised(c, net, adrTypesConf[ty], true, want, "conf"); f != "" {
		return f
	}

	return "OK"
}

// the case clause on the segwit forms of one (network, type, payload, key)
func checkC14Case(t *Toks) string {
	net := adrNets[t.Int()]
	ty := t.Int()
	payload, key := t.Hex(), t.Hex()
	if ty < 2 {
		return "SKIP not-segwit"
	}
	ver := adrVersionByte(net, ty)
	u, err1 := adrEncode(net, ty, payload, nil)
	c, err2 := adrEncode(net, ty, payload, key)
	if err1 != nil || err2 != nil {
		return "SKIP not-encodable"
	}
	U := strings.ToUpper(u)
	d, err := address.FromBech32(U)
	if err != nil || d.Version != ver || !bytes.Equal(d.Program, payload) {
		return fail("case-bech32", "upper-case-decodes-differently")
	}
	if r, err := address.ToBech32(d); err != nil || !strings.EqualFold(r, u) {
		return fail("case-bech32-reencode", "upper-case")
	}
	// mixed case is never recognised
	m := []byte(u)
	m[len(m)-1-int(payload[0])%20] = U[len(m)-1-int(payload[0])%20]
	m[0] = U[0]
	if string(m) != u && string(m) != U {
		if _, err := address.FromBech32(string(m)); err == nil {
			return fail("case-bech32", "mixed-case-accepted")
		}
	}
	C := strings.ToUpper(c)
	e, err := address.FromBlech32(C)
	if err != nil || e.Version != ver || !bytes.Equal(e.PublicKey, key) || !bytes.Equal(e.Program, payload) {
		return fail("case-blech32", "upper-case-decodes-differently")
	}
	e.PublicKey = cp(e.PublicKey)
	if r, err := address.ToBlech32(e); err != nil || !strings.EqualFold(r, c) {
		return fail("case-blech32-reencode", "upper-case")
	}
	return "OK"
}

// the strings with the checksum constant of the other witness version
func adrOtherConst(net *network.Network, ty int, payload, key []byte) (x, y string) {
	ver := adrVersionByte(net, ty)
	conv, _ := bech32.ConvertBits(payload, 8, 5, true)
	data := append([]byte{ver}, conv...)
	if ver == 0 {
		x, _ = bech32.EncodeM(net.Bech32, data)
	} else {
		x, _ = bech32.Encode(net.Bech32, data)
	}
	bconv, _ := blech32.ConvertBits(append(cp(key), payload...), 8, 5, true)
	bdata := append([]byte{ver}, bconv...)
	other := blech32.BLECH32M
	if ver == 1 {
		other = blech32.BLECH32
	}
	y, _ = b32Encode(net.Blech32, bdata, other)
	return
}

// version-0 programs only with the bech32/blech32 constant, version-1 only with the m-constant
func checkC14Const(t *Toks) string {
	net := adrNets[t.Int()]
	ty := t.Int()
	payload, key := t.Hex(), t.Hex()
	if ty < 2 {
		return "SKIP not-segwit"
	}
	ver := adrVersionByte(net, ty)
	x, y := adrOtherConst(net, ty, payload, key)
	if y != "" {
		if _, err := address.DecodeType(y); err == nil {
			return fail("blech32-constant", fmt.Sprintf("v%d-with-other-constant-recognised", ver))
		}
		if _, err := address.FromBlech32(y); err == nil {
			return fail("blech32-constant", fmt.Sprintf("v%d-with-other-constant-decoded", ver))
		}
	}
	if _, err := address.DecodeType(x); err == nil {
		return fail("bech32-constant", fmt.Sprintf("v%d-with-%s-recognised", ver, bechConst(x)))
	}
	return "OK"
}

// clauses shared by both forms of one address
func c14Recognised(s string, net *network.Network, wantType int, conf bool, script []byte, tag string) string {
	ty, err := address.DecodeType(s)
	if err != nil || ty != wantType {
		return fail("type-"+tag, fmt.Sprintf("got=%d/want=%d", ty, wantType))
	}
	ic, err := address.IsConfidential(s)
	if err != nil || ic != conf {
		return fail("is-confidential-"+tag, fmt.Sprint(ic))
	}
	n, err := address.NetworkForAddress(s)
	if err != nil || n.Name != net.Name {
		return fail("network-"+tag, "attributed-to-another-network")
	}
	sc, err := address.ToOutputScript(s)
	if err != nil || !bytes.Equal(sc, script) {
		return fail("script-"+tag, "differs-from-payment-script")
	}
	return ""
}

// C14 on an arbitrary string: whatever DecodeType recognises re-encodes to itself (up to case)
func checkC14Dec(t *Toks) string {
	s := string(t.Hex())
	var ty int
	var err error
	if guard(func() string { ty, err = address.DecodeType(s); return "" }) == "panic" {
		return "OK panic-is-C12" // a panic on malformed input is the business of C12
	}
	if err != nil {
		return "OK not-recognised"
	}
	if _, err := address.NetworkForAddress(s); err != nil {
		return fail("network-recognised", "type-without-network")
	}
	ic, err := address.IsConfidential(s)
	wantConf := ty == address.ConfidentialP2Pkh || ty == address.ConfidentialP2Sh || ty == address.ConfidentialP2Wpkh ||
		ty == address.ConfidentialP2Wsh || ty == address.ConfidentialP2TR
	if err != nil || ic != wantConf {
		return fail("is-confidential-recognised", fmt.Sprint(ty))
	}
	if _, err := address.ToOutputScript(s); err != nil {
		return fail("script-recognised", fmt.Sprint(ty))
	}
	switch ty {
	case address.P2Pkh, address.P2Sh:
		d, err := address.FromBase58(s)
		if err != nil || address.ToBase58(d) != s {
			return fail("reencode-base58", "recognised-string")
		}
	case address.ConfidentialP2Pkh, address.ConfidentialP2Sh:
		d, err := address.FromBase58Confidential(s)
		if err != nil || address.ToBase58Confidential(d) != s {
			return fail("reencode-base58-conf", "recognised-string")
		}
	case address.P2Wpkh, address.P2Wsh, address.P2TR:
		d, err := address.FromBech32(s)
		if err != nil {
			return fail("reencode-bech32", "recognised-but-not-decoded")
		}
		r, err := address.ToBech32(d)
		if err != nil || !strings.EqualFold(r, s) {
			return fail("reencode-bech32", fmt.Sprintf("v%d-with-%s", d.Version, bechConst(s)))
		}
	default:
		d, err := address.FromBlech32(s)
		if err != nil {
			return fail("reencode-blech32", "recognised-but-not-decoded")
		}
		d.PublicKey = cp(d.PublicKey)
		r, err := address.ToBlech32(d)
		if err != nil || !strings.EqualFold(r, s) {
			return fail("reencode-blech32", fmt.Sprintf("v%d", d.Version))
		}
	}
	// confidential <-> unconfidential on whatever is recognised: script and key are preserved, the
	// other form is itself recognised, and converting back returns the string
	key := append([]byte{0x02}, lineRng(t.line).Bytes(32)...)
	sc, _ := address.ToOutputScript(s)
	if wantConf {
		fc, err := address.FromConfidential(s)
		if err != nil {
			return fail("conf-unconf", "from-confidential-fails")
		}
		if len(fc.Script) == 0 || !bytes.Equal(fc.Script, sc) {
			return fail("conf-unconf", "script-differs-from-ToOutputScript")
		}
		if ty2, err := address.DecodeType(fc.Address); err != nil {
			return fail("conf-unconf", "unconfidential-form-not-recognised")
		} else if c2, _ := address.IsConfidential(fc.Address); c2 {
			return fail("conf-unconf", fmt.Sprintf("unconfidential-form-has-type-%d", ty2))
		}
		if sc2, err := address.ToOutputScript(fc.Address); err != nil || !bytes.Equal(sc2, sc) {
			return fail("conf-unconf", "unconfidential-script-differs")
		}
		back, err := address.ToConfidential(&address.AddressInfo{Address: fc.Address, BlindingKey: cp(fc.BlindingKey)})
		if err != nil || back != s {
			return fail("conf-unconf", "conf-unconf-conf-is-not-the-input")
		}
	} else {
		c, err := address.ToConfidential(&address.AddressInfo{Address: s, BlindingKey: cp(key)})
		if err != nil {
			return fail("conf-unconf", "to-confidential-fails")
		}
		fc, err := address.FromConfidential(c)
		if err != nil || fc.Address != s || !bytes.Equal(fc.BlindingKey, key) || !bytes.Equal(fc.Script, sc) || len(sc) == 0 {
			return fail("conf-unconf", "unconf-conf-unconf-is-not-the-input")
		}
	}
	return "OK recognised"
}

// re-encoding of a recognised string through the matching From*/To* pair; "" when fine
func c14Reencode(s string) string {
	ty, err := address.DecodeType(s)
	if err != nil {
		return ""
	}
	switch ty {
	case address.P2Pkh, address.P2Sh:
		d, err := address.FromBase58(s)
		if err != nil || address.ToBase58(d) != s {
			return "base58"
		}
	case address.ConfidentialP2Pkh, address.ConfidentialP2Sh:
		d, err := address.FromBase58Confidential(s)
		if err != nil || address.ToBase58Confidential(d) != s {
			return "base58-conf"
		}
	case address.P2Wpkh, address.P2Wsh, address.P2TR:
		d, err := address.FromBech32(s)
		if err != nil {
			return "bech32"
		}
		if r, err := address.ToBech32(d); err != nil || !strings.EqualFold(r, s) {
			return "bech32"
		}
	default:
		d, err := address.FromBlech32(s)
		if err != nil {
			return "blech32"
		}
		d.PublicKey = cp(d.PublicKey)
		if r, err := address.ToBlech32(d); err != nil || !strings.EqualFold(r, s) {
			return "blech32"
		}
	}
	return ""
}

// C14 over a history: what the decoders answer for a string does not depend on what callers did
// with earlier answers (every returned slice overwritten, interleaved with another address),
// and a recognised string still re-encodes to itself afterwards
func checkC14Hist(t *Toks) string {
	s1, s2 := string(t.Hex()), string(t.Hex())
	pre1, pre2 := guard(func() string { return c14Reencode(s1) }), guard(func() string { return c14Reencode(s2) })
	f1, f2, l1, l2 := adrHistory(s1, s2)
	if l1 != f1 {
		return fail("history-decode", "first-string-answers-changed/"+firstDiffKey(f1, l1))
	}
	if l2 != f2 {
		return fail("history-decode", "second-string-answers-changed/"+firstDiffKey(f2, l2))
	}
	if pre1 == "" {
		if x := guard(func() string { return c14Reencode(s1) }); x != "" {
			return fail("history-reencode", x)
		}
	}
	if pre2 == "" {
		if x := guard(func() string { return c14Reencode(s2) }); x != "" {
			return fail("history-reencode", x)
		}
	}
	for _, s := range []string{s1, s2} {
		if x := guard(func() string { return c14KeyReuse(s) }); x != "" {
			return fail("history-key-reuse", x)
		}
	}
	return "OK"
}

// the blinding key of a decoded blech32 address used again to encode another program (what a wallet does when it
// derives a second address for the same key): the first decoded object must still encode to the string it came from
// (seeded change C14-q: ToBlech32 appending the program onto the caller's key slice)
func c14KeyReuse(s string) string {
	b, err := address.FromBlech32(s)
	if err != nil || b == nil {
		return ""
	}
	first, err := address.ToBlech32(b)
	if err != nil {
		return ""
	}
	prog := make([]byte, len(b.Program))
	for i := range prog {
		prog[i] = ^b.Program[i]
	}
	_, _ = address.ToBlech32(&address.Blech32{Prefix: b.Prefix, Version: b.Version, PublicKey: b.PublicKey, Program: prog})
	again, err := address.ToBlech32(b)
	if err != nil {
		return "decoded-address-no-longer-encodes"
	}
	if again != first {
		return "decoded-address-encodes-differently"
	}
	return ""
}

func firstDiffKey(a, b string) string {
	fa, fb := strings.Split(a, " "), strings.Split(b, " ")
	for i := range fa {
		if i >= len(fb) || fa[i] != fb[i] {
			return strings.SplitN(fa[i], "=", 2)[0]
		}
	}
	return "?"
}

// C14 on nested payments: at the outer payment and at every Redeem level, each address the payment
// hands out decodes (ToOutputScript / FromConfidential) to the script the builder holds for it, and
// the Redeem kept by a wrapping payment hands out the addresses the wrapped payment had
func checkC14Nest(t *Toks) string {
	outer, wrapped, ok := adrNestChain(t)
	if !ok {
		return "SKIP bad-case"
	}
	level := 0
	for p := outer; p != nil; p = p.Redeem {
		if f := c14LevelCheck(p, level); f != "" {
			return f
		}
		if level >= 1 && level-1 < len(wrapped) {
			if a, b := adrLevelLine(p), adrLevelLine(wrapped[level-1]); a != b {
				return fail("nest-redeem", fmt.Sprintf("level=%d/%s", level, firstDiffKey(b, a)))
			}
		}
		level++
	}
	return "OK"
}

func c14LevelCheck(p *payment.Payment, level int) string {
	ms := adrPayMethods(p)
	// which builder script belongs to which address method
	want := make([][]byte, 10)
	switch address.GetScriptType(p.Script) {
	case address.P2PkhScript:
		want[0], want[1] = p.Script, p.Script
	case address.P2ShScript:
		want[2], want[3] = p.Script, p.Script
	}
	if len(p.WitnessScript) > 0 || len(p.WitnessHash) > 0 {
		if len(p.WitnessHash) == 20 {
			want[4], want[5] = p.WitnessScript, p.WitnessScript
		} else {
			want[6], want[7] = p.WitnessScript, p.WitnessScript
		}
	}
	for i := 0; i < 8; i++ {
		if want[i] == nil && !(i >= 4 && (len(p.WitnessScript) > 0 || len(p.WitnessHash) > 0)) {
			continue
		}
		if want[i] == nil {
			continue
		}
		m := ms[i]
		var a string
		var err error
		if guard(func() string { a, err = m(); return "" }) == "panic" || err != nil || a == "" {
			continue
		}
		sc, err := address.ToOutputScript(a)
		if err != nil || !bytes.Equal(sc, want[i]) {
			return fail("nest-script", fmt.Sprintf("level=%d/method=%d", level, i))
		}
		if i%2 == 1 {
			fc, err := address.FromConfidential(a)
			if err != nil || !bytes.Equal(fc.Script, want[i]) || p.BlindingKey == nil ||
				!bytes.Equal(fc.BlindingKey, p.BlindingKey.SerializeCompressed()) {
				return fail("nest-confidential", fmt.Sprintf("level=%d/method=%d", level, i))
			}
		}
	}
	// a witness address without a witness script behind it is an address of nothing
	if len(p.WitnessScript) == 0 {
		for _, i := range []int{4, 5, 6, 7} {
			m := ms[i]
			var a string
			var err error
			if guard(func() string { a, err = m(); return "" }) != "panic" && err == nil && a != "" {
				return fail("nest-script", fmt.Sprintf("level=%d/method=%d/no-witness-script", level, i))
			}
		}
	}
	return ""
}

// checksum-valid strings whose human-readable part merely starts with (or otherwise resembles) a known
// prefix belong to no known network: nothing may recognise them
var foreignHrps = []string{"exx", "lqx", "exq", "tlqq", "elx", "ertt", "texx", "lq1", "e", "x", "ex1ex", "tl", "qlq", "lqlq"}

func checkC14Foreign(t *Toks) string {
	net := adrNets[t.Int()]
	ty := t.Int()
	payload, key := t.Hex(), t.Hex()
	if ty < 2 {
		return "SKIP not-segwit"
	}
	ver := adrVersionByte(net, ty)
	conv, _ := bech32.ConvertBits(payload, 8, 5, true)
	data := append([]byte{ver}, conv...)
	bconv, _ := blech32.ConvertBits(append(cp(key), payload...), 8, 5, true)
	bdata := append([]byte{ver}, bconv...)
	enc := blech32.BLECH32
	if ver == 1 {
		enc = blech32.BLECH32M
	}
	for _, h := range foreignHrps {
		var x string
		if ver == 0 {
			x, _ = bech32.Encode(h, data)
		} else {
			x, _ = bech32.EncodeM(h, data)
		}
		y, _ := b32Encode(h, bdata, enc)
		for _, s := range []string{x, y} {
			if s == "" {
				continue
			}
			if n, err := address.NetworkForAddress(s); err == nil {
				return fail("foreign-hrp", fmt.Sprintf("%s-attributed-to-%s", h, n.Name))
			}
			if _, err := address.DecodeType(s); err == nil {
				return fail("foreign-hrp", h+"-recognised")
			}
			if _, err := address.ToOutputScript(s); err == nil {
				return fail("foreign-hrp", h+"-has-script")
			}
			if guard(func() string {
				if _, err := address.FromConfidential(s); err == nil {
					return "ok"
				}
				return ""
			}) == "ok" {
				return fail("foreign-hrp", h+"-from-confidential")
			}
		}
	}
	return "OK"
}

func init() {
	checks["C14/adrforeign"] = checkC14Foreign
	checks["C14/adrnest"] = checkC14Nest
	checks["C14/adrhist"] = checkC14Hist
	checks["C14/adrform"] = checkC14Form
	checks["C14/adrcase"] = checkC14Case
	checks["C14/adrconst"] = checkC14Const
	checks["C14/adrdec"] = checkC14Dec
}
