package main

import (
	"encoding/hex"
	"hash/fnv"
	"strconv"
	"strings"
)

// Rng is a splitmix64 generator: every random choice of the harness derives from
// one seed (VERIF_SEED), so a disagreement replays exactly.
type Rng struct{ s uint64 }

func NewRng(seed uint64) *Rng { return &Rng{s: seed*0x9E3779B97F4A7C15 + 0x1234567} }
func (r *Rng) U64() uint64 {
	r.s += 0x9E3779B97F4A7C15
	z := r.s
	z = (z ^ (z >> 30)) * 0xBF58476D1CE4E5B9
	z = (z ^ (z >> 27)) * 0x94D049BB133111EB
	return z ^ (z >> 31)
}
func (r *Rng) Intn(n int) int {
	if n <= 0 {
		return 0
	}
	return int(r.U64() % uint64(n))
}
func (r *Rng) Bool() bool        { return r.U64()&1 == 1 }
func (r *Rng) Chance(p int) bool { return r.Intn(100) < p }
func (r *Rng) Bytes(n int) []byte {
	b := make([]byte, n)
	for i := range b {
		b[i] = byte(r.U64())
	}
	return b
}
func (r *Rng) Pick(xs ...int) int { return xs[r.Intn(len(xs))] }

// Toks is the token stream of one case line.
type Toks struct {
	l    []string
	line string
}

func (t *Toks) Next() string {
	if len(t.l) == 0 {
		panic("eof")
	}
	x := t.l[0]
	t.l = t.l[1:]
	return x
}
func (t *Toks) Int() int {
	v, err := strconv.Atoi(t.Next())
	if err != nil {
		panic(err)
	}
	return v
}
func (t *Toks) U64() uint64 {
	v, err := strconv.ParseUint(t.Next(), 10, 64)
	if err != nil {
		panic(err)
	}
	return v
}

// Hex reads a hex token; "-" is the empty string. Whether empty becomes nil or
// []byte{} is chosen from a hash of the line and the position, so that both are
// exercised deterministically (the model identifies them).
func (t *Toks) Hex() []byte {
	s := t.Next()
	if s == "-" {
		h := fnv.New32a()
		h.Write([]byte(t.line))
		if (h.Sum32()+uint32(len(t.l)))%2 == 0 {
			return nil
		}
		return []byte{}
	}
	b, err := hex.DecodeString(s)
	if err != nil {
		panic(err)
	}
	return b
}
func (t *Toks) HexList() [][]byte {
	n := t.Int()
	var l [][]byte
	for i := 0; i < n; i++ {
		l = append(l, t.Hex())
	}
	return l
}

func hx(b []byte) string {
	if len(b) == 0 {
		return "-"
	}
	return hex.EncodeToString(b)
}

type sb struct{ strings.Builder }

func (b *sb) add(s string)  { b.WriteString(s); b.WriteByte(' ') }
func (b *sb) addn(v uint64) { b.add(strconv.FormatUint(v, 10)) }
func (b *sb) addh(x []byte) { b.add(hx(x)) }
func (b *sb) addl(l [][]byte) {
	b.addn(uint64(len(l)))
	for _, x := range l {
		b.addh(x)
	}
}
func (b *sb) commas() string {
	return strings.ReplaceAll(strings.TrimSpace(b.String()), " ", ",")
}
func b2s(b bool) string {
	if b {
		return "1"
	}
	return "0"
}
