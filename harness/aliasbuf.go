package main

// C18 oracle for the *bytes.Buffer entry points: a value parsed from a caller-owned byte array must
// share no memory with it.  (a) the caller overwrites its whole source array afterwards: the parsed
// value still holds / serializes to what it did; (b) the caller writes through every byte slice of
// the parsed value (over full capacity): the source array is unchanged.  Inputs end exactly with
// their last field (a witness-flag transaction ends with the range proof of its last output), and
// are also tried with bytes in front and behind.

import (
	"bytes"
	"encoding/base64"
	"encoding/hex"
	"fmt"
	"reflect"
	"strings"

	"github.com/vulpemventures/go-elements/block"
	"github.com/vulpemventures/go-elements/psetv2"
	"github.com/vulpemventures/go-elements/transaction"
)

// c18WalkBytes calls f on every byte slice (and addressable byte array) reachable from v
func c18WalkBytes(v reflect.Value, seen map[uintptr]bool, depth int, f func([]byte)) {
	if depth > 24 || !v.IsValid() {
		return
	}
	switch v.Kind() {
	case reflect.Ptr:
		if v.IsNil() || seen[v.Pointer()] {
			return
		}
		seen[v.Pointer()] = true
		c18WalkBytes(v.Elem(), seen, depth+1, f)
	case reflect.Interface:
		if !v.IsNil() {
			c18WalkBytes(v.Elem(), seen, depth+1, f)
		}
	case reflect.Struct:
		for i := 0; i < v.NumField(); i++ {
			c18WalkBytes(v.Field(i), seen, depth+1, f)
		}
	case reflect.Slice:
		if v.IsNil() {
			return
		}
		if v.Type().Elem().Kind() == reflect.Uint8 {
			f(v.Bytes())
			return
		}
		for i := 0; i < v.Len(); i++ {
			c18WalkBytes(v.Index(i), seen, depth+1, f)
		}
	case reflect.Array:
		if v.Type().Elem().Kind() == reflect.Uint8 {
			if v.CanAddr() {
				f(v.Slice(0, v.Len()).Bytes())
			}
			return
		}
		for i := 0; i < v.Len(); i++ {
			c18WalkBytes(v.Index(i), seen, depth+1, f)
		}
	case reflect.Map:
		it := v.MapRange()
		for it.Next() {
			c18WalkBytes(it.Value(), seen, depth+1, f)
		}
	}
}

func c18AllBytes(val interface{}) [][]byte {
	var out [][]byte
	c18WalkBytes(reflect.ValueOf(val), map[uintptr]bool{}, 0, func(b []byte) { out = append(out, b) })
	return out
}

func c18DumpBytes(val interface{}) string {
	var sb strings.Builder
	for _, b := range c18AllBytes(val) {
		sb.WriteString(hex.EncodeToString(b))
		sb.WriteByte(',')
	}
	return sb.String()
}

type c18Parser struct {
	name  string
	parse func(buf *bytes.Buffer) (val interface{}, ser func() string, err error)
}

var c18Parsers = map[string]c18Parser{
	"NewTxFromBuffer": {"transaction.NewTxFromBuffer", func(buf *bytes.Buffer) (interface{}, func() string, error) {
		tx, err := transaction.NewTxFromBuffer(buf)
		if err != nil {
			return nil, nil, err
		}
		return tx, func() string {
			s, _ := tx.Serialize()
			w := tx.WitnessHash()
			return hex.EncodeToString(s) + hex.EncodeToString(w[:])
		}, nil
	}},
	"block.NewFromBuffer": {"block.NewFromBuffer", func(buf *bytes.Buffer) (interface{}, func() string, error) {
		b, err := block.NewFromBuffer(buf)
		if err != nil {
			return nil, nil, err
		}
		return b, func() string { s, _ := b.SerializeBlock(); return hex.EncodeToString(s) }, nil
	}},
	"block.DeserializeHeader": {"block.DeserializeHeader", func(buf *bytes.Buffer) (interface{}, func() string, error) {
		h, err := block.DeserializeHeader(buf)
		if err != nil {
			return nil, nil, err
		}
		return h, func() string { s, _ := h.Serialize(); return hex.EncodeToString(s) }, nil
	}},
	"block.NewMerkleBlockFromBuffer": {"block.NewMerkleBlockFromBuffer", func(buf *bytes.Buffer) (interface{}, func() string, error) {
		m, err := block.NewMerkleBlockFromBuffer(buf)
		if err != nil {
			return nil, nil, err
		}
		return m, func() string {
			root, matches, err := m.ExtractMatches()
			return fmt.Sprint(root, matches, err == nil)
		}, nil
	}},
	"psetv2.NewPsetFromBuffer": {"psetv2.NewPsetFromBuffer", func(buf *bytes.Buffer) (interface{}, func() string, error) {
		p, err := psetv2.NewPsetFromBuffer(buf)
		if err != nil {
			return nil, nil, err
		}
		return p, func() string { s, _ := p.ToBase64(); return s }, nil
	}},
}

// c18BufferIndependent runs clauses (a) and (b) for one parser on one source; front/behind = bytes around
// the source inside the caller's array (behind = 0: the input ends exactly with its last field)
func c18BufferIndependent(pk string, src []byte, front, behind int) string {
	p := c18Parsers[pk]
	arr := bytes.Repeat([]byte{0xa5}, front+len(src)+behind)
	copy(arr[front:], src)
	mk := func() *bytes.Buffer { return bytes.NewBuffer(arr[front : front+len(src)]) }
	orig := append([]byte(nil), arr...)
	flip := func(b []byte) {
		for i := range b {
			b[i] ^= 0xff
		}
	}
	// (a) the caller overwrites its source afterwards
	val, ser, err := p.parse(mk())
	if err != nil {
		return ""
	}
	s1, d1 := ser(), c18DumpBytes(val)
	flip(arr)
	s2, d2 := "", ""
	if pn := guarded(func() { s2, d2 = ser(), c18DumpBytes(val) }); pn != nil {
		s2 = "panic"
	}
	flip(arr)
	if !bytes.Equal(arr, orig) {
		return "harness"
	}
	if s1 != s2 || d1 != d2 {
		return fail("parse-aliases-source."+p.name, fmt.Sprintf("source-overwritten-changes-parsed-value/front=%d/behind=%d", front, behind))
	}
	// (b) the caller writes through every slice of the parsed value
	val, _, err = p.parse(mk())
	if err != nil {
		return fail("repeat."+p.name, "second-parse-rejected")
	}
	for _, b := range c18AllBytes(val) {
		full := b[:cap(b)]
		flip(full)
		hit := !bytes.Equal(arr, orig)
		flip(full)
		if hit {
			return fail("parse-aliases-source."+p.name, fmt.Sprintf("write-through-parsed-value-changes-source/front=%d/behind=%d", front, behind))
		}
	}
	return ""
}

func c18BufferAll(pk string, src []byte) string {
	for _, cfg := range [][2]int{{0, 0}, {3, 0}, {0, 5}, {2, 7}} {
		if r := c18BufferIndependent(pk, src, cfg[0], cfg[1]); r != "" {
			return r
		}
	}
	return ""
}

// c18BufferSources: generated inputs for every *bytes.Buffer entry point; the transactions end with a
// non-empty range proof of their last output (witness flag set)
func c18BufferSweep(r *Rng) string {
	for k := 0; k < 3; k++ {
		tx := genTx(r, true)
		if len(tx.Outputs) == 0 {
			tx.Outputs = append(tx.Outputs, transaction.NewTxOutput(append([]byte{1}, r.Bytes(32)...), []byte{1, 0, 0, 0, 0, 0, 0, 0, 1}, []byte{0x51}))
		}
		tx.Outputs[len(tx.Outputs)-1].RangeProof = r.Bytes(1 + r.Intn(300))
		if ser, err := tx.Serialize(); err == nil {
			if x := c18BufferAll("NewTxFromBuffer", ser); x != "" {
				return x
			}
		}
		bl := genBlock(r)
		if n := len(bl.TransactionsData.Transactions); n > 0 {
			last := bl.TransactionsData.Transactions[n-1]
			if m := len(last.Outputs); m > 0 {
				last.Outputs[m-1].RangeProof = r.Bytes(1 + r.Intn(100))
			}
		}
		if ser, err := bl.SerializeBlock(); err == nil {
			if x := c18BufferAll("block.NewFromBuffer", ser); x != "" {
				return x
			}
		}
		if ser, err := bl.Header.Serialize(); err == nil {
			if x := c18BufferAll("block.DeserializeHeader", ser); x != "" {
				return x
			}
		}
	}
	for _, h := range c18Seeds.merkleHex {
		if b, err := hex.DecodeString(h); err == nil {
			if x := c18BufferAll("block.NewMerkleBlockFromBuffer", b); x != "" {
				return x
			}
		}
	}
	for i := 0; i < 4 && len(c18Seeds.psetV2B64) > 0; i++ {
		if b, err := base64.StdEncoding.DecodeString(c18Seeds.psetV2B64[r.Intn(len(c18Seeds.psetV2B64))]); err == nil {
			if x := c18BufferAll("psetv2.NewPsetFromBuffer", b); x != "" {
				return x
			}
		}
	}
	return ""
}
