package main

// claim family (C20): pegin.Claim on a bitcoin transaction and a merkle-block proof built by
// the independent builder of merkle.go.
//
//	claim <dyn> <asset> <genesis> <fedpeg> <contract> <btctx> <proof> <claimscript> <num hex> <k>
//	      <0 | 1 <txid> <stripped> <mainscript> <nouts> (<value hex> <script>)*>
//
// rate = num / 2^k (exact in float64).  The part after <k> is what btcd/btcutil compute from the
// bitcoin transaction and the contract (external code): inputs of the model, ignored by `run`.

import (
	"bufio"
	"bytes"
	"crypto/sha256"
	"fmt"
	"math"
	"strconv"
	"strings"

	"github.com/btcsuite/btcd/btcutil"
	"github.com/btcsuite/btcd/chaincfg"
	"github.com/btcsuite/btcd/chaincfg/chainhash"
	"github.com/btcsuite/btcd/wire"
	"github.com/vulpemventures/go-elements/pegin"
	"github.com/vulpemventures/go-elements/transaction"
)

type claimCase struct {
	dyn                                                          bool
	asset, genesis, fedpeg, contract, btcTx, proof, claimScript []byte
	num                                                          uint64
	k                                                            int
	haveView                                                     bool
	txid, stripped, mainScript                                   []byte
	outVals                                                      []uint64
	outScripts                                                   [][]byte
}

func (c *claimCase) rate() float64 { return float64(c.num) / math.Pow(2, float64(c.k)) }

func readClaim(t *Toks) *claimCase {
	c := &claimCase{}
	c.dyn = t.Int() == 1
	c.asset, c.genesis, c.fedpeg, c.contract = t.Hex(), t.Hex(), t.Hex(), t.Hex()
	c.btcTx, c.proof, c.claimScript = t.Hex(), t.Hex(), t.Hex()
	c.num, _ = strconv.ParseUint(t.Next(), 16, 64)
	c.k = t.Int()
	if t.Int() == 1 {
		c.haveView = true
		c.txid, c.stripped, c.mainScript = t.Hex(), t.Hex(), t.Hex()
		n := t.Int()
		for i := 0; i < n; i++ {
			v, _ := strconv.ParseUint(t.Next(), 16, 64)
			c.outVals = append(c.outVals, v)
			c.outScripts = append(c.outScripts, t.Hex())
		}
	}
	return c
}

func (c *claimCase) line() string {
	var b sb
	b.add("claim")
	b.add(b2s(c.dyn))
	for _, x := range [][]byte{c.asset, c.genesis, c.fedpeg, c.contract, c.btcTx, c.proof, c.claimScript} {
		b.addh(x)
	}
	b.add(strconv.FormatUint(c.num, 16))
	b.addn(uint64(c.k))
	if !c.haveView {
		b.add("0")
	} else {
		b.add("1")
		b.addh(c.txid)
		b.addh(c.stripped)
		b.addh(c.mainScript)
		b.addn(uint64(len(c.outVals)))
		for i := range c.outVals {
			b.add(strconv.FormatUint(c.outVals[i], 16))
			b.addh(c.outScripts[i])
		}
	}
	return strings.TrimSpace(b.String())
}

func callClaim(c *claimCase) (string, []byte) {
	tx, err := pegin.Claim(&chaincfg.RegressionNetParams, c.dyn, c.asset, c.genesis, c.fedpeg, c.contract,
		c.btcTx, c.proof, c.claimScript, c.rate())
	if err != nil {
		return "err", nil
	}
	ser, err := tx.Serialize()
	if err != nil {
		return "ser-err", nil
	}
	return "ok", ser
}

func pegin_Claim(c *claimCase, rate float64) (*transaction.Transaction, error) {
	return pegin.Claim(&chaincfg.MainNetParams, c.dyn, c.asset, c.genesis, c.fedpeg, c.contract,
		c.btcTx, c.proof, c.claimScript, rate)
}

func runClaim(t *Toks) string {
	c := readClaim(t)
	cls, ser := callClaim(c)
	if cls != "ok" {
		return "err res=" + cls
	}
	return "res=ok tx=" + hx(ser)
}

var fedpegScripts = [][]byte{
	{0x51}, // OP_TRUE (regtest)
	append(append([]byte{0xa9, 0x14}, bytes.Repeat([]byte{0x42}, 20)...), 0x87), // P2SH-shaped
	{0x52, 0x21, 2, 1, 1, 1, 1, 1, 1, 1, 1, 1, 1, 1, 1, 1, 1, 1, 1, 1, 1, 1, 1, 1, 1, 1, 1, 1, 1, 1, 1, 1, 1, 1, 1, 1, 0x51, 0xae},
}

// main-chain script as Elements defines it (own computation: crypto/sha256 + btcutil.Hash160)
func mainChainScript(dyn bool, fedpeg, contract []byte) []byte {
	wsh := sha256.Sum256(contract)
	isP2SH := len(fedpeg) == 23 && fedpeg[0] == 0xa9 && fedpeg[1] == 0x14 && fedpeg[22] == 0x87
	if !dyn || isP2SH {
		redeem := append([]byte{0x00, 0x20}, wsh[:]...)
		return append(append([]byte{0xa9, 0x14}, btcutil.Hash160(redeem)...), 0x87)
	}
	return append([]byte{0x00, 0x20}, wsh[:]...)
}

func genClaimCase(r *Rng, variant int) *claimCase {
	c := &claimCase{}
	c.dyn = r.Bool()
	c.asset = append([]byte{1}, r.Bytes(32)...)
	c.genesis = r.Bytes(32)
	c.fedpeg = fedpegScripts[r.Intn(len(fedpegScripts))]
	c.contract = r.Bytes(1 + r.Intn(40))
	c.claimScript = append([]byte{0x00, 0x14}, r.Bytes(20)...)
	if r.Chance(10) {
		c.claimScript = r.Bytes(r.Intn(40))
	}
	main := mainChainScript(c.dyn, c.fedpeg, c.contract)

	// the bitcoin transaction
	tx := wire.NewMsgTx(int32(r.Pick(1, 2)))
	nin := 1 + r.Intn(3)
	segwit := r.Bool()
	// encodings btcd accepts that are not the canonical no-witness serialization of a witness-free tx:
	// 1 = extended encoding (marker 00, flag 01) with every witness stack empty, 2 = legacy + trailing bytes
	oddEnc := 0
	if variant == 11 || variant == 12 {
		segwit, oddEnc = false, variant-10
	} else if variant == 0 && r.Chance(20) {
		segwit, oddEnc = false, 1+r.Intn(2)
	}
	for i := 0; i < nin; i++ {
		var h chainhash.Hash
		copy(h[:], r.Bytes(32))
		in := wire.NewTxIn(wire.NewOutPoint(&h, uint32(r.Intn(5))), r.Bytes(r.Intn(30)), nil)
		in.Sequence = uint32(r.U64())
		if segwit {
			in.Witness = wire.TxWitness{r.Bytes(1 + r.Intn(72)), r.Bytes(33)}
		}
		tx.AddTxIn(in)
	}
	nout := 1 + r.Intn(4)
	pay := r.Intn(nout)
	amount := uint64(1000 + r.Intn(1000000000))
	switch r.Intn(12) {
	case 0:
		amount = uint64(r.Intn(300)) // below any plausible fee
	case 1:
		amount = 0
	case 2:
		amount = 2100000000000000
	case 3:
		amount = 1<<63 + uint64(r.Intn(1000)) // negative int64 on the wire
	}
	for i := 0; i < nout; i++ {
		if i == pay && variant != 6 {
			tx.AddTxOut(wire.NewTxOut(int64(amount), main))
		} else {
			tx.AddTxOut(wire.NewTxOut(int64(r.Intn(100000)), r.Bytes(r.Pick(22, 23, 25, 34))))
		}
	}
	if variant == 7 || variant == 10 { // several outputs pay the main-chain script: the loop keeps the last one
		tx.AddTxOut(wire.NewTxOut(int64(amount/2+7), main))
		if variant == 10 {
			tx.AddTxOut(wire.NewTxOut(int64(r.Intn(5000)), r.Bytes(25)))
			tx.AddTxOut(wire.NewTxOut(int64(amount/3+100000), main))
		}
	}
	tx.LockTime = uint32(r.U64())
	var full, stripped bytes.Buffer
	tx.Serialize(&full)
	tx.SerializeNoWitness(&stripped)
	c.btcTx = full.Bytes()
	if nw := stripped.Bytes(); oddEnc == 1 {
		ext := append([]byte{}, nw[:4]...)
		ext = append(ext, 0x00, 0x01)
		ext = append(ext, nw[4:len(nw)-4]...)
		ext = append(ext, make([]byte, nin)...) // one empty witness stack per input
		c.btcTx = append(ext, nw[len(nw)-4:]...)
	} else if oddEnc == 2 {
		c.btcTx = append(append([]byte{}, nw...), r.Bytes(1+r.Intn(6))...)
	}
	h := tx.TxHash()
	c.haveView = true
	c.txid = h.CloneBytes()
	c.stripped = stripped.Bytes()
	c.mainScript = main
	for _, o := range tx.TxOut {
		c.outVals = append(c.outVals, uint64(o.Value))
		c.outScripts = append(c.outScripts, o.PkScript)
	}

	// the block and the proof
	n := 1 + r.Intn(12)
	if r.Chance(10) {
		n = 13 + r.Intn(40)
	}
	txids := randTxids(r, n)
	pos := r.Intn(n)
	txids[pos] = c.txid
	matched := make([]bool, n)
	matched[pos] = true
	root := mkRootLevels(txids)
	switch variant {
	case 1: // another transaction of the block is matched as well
		if n > 1 {
			matched[(pos+1)%n] = true
		}
	case 2: // the proof is about another transaction
		if n > 1 {
			matched[pos] = false
			matched[(pos+1)%n] = true
		}
	case 3: // nothing matched
		matched[pos] = false
	}
	p := mkPMT(txids, matched)
	header := mkHeader(r, root)
	if variant == 4 { // header commits to another root
		header[36+r.Intn(32)] ^= 1 << uint(r.Intn(8))
	}
	hashes := append([][]byte{}, p.hashes...)
	if variant == 5 { // a corrupted hash in the proof
		i := r.Intn(len(hashes))
		x := append([]byte{}, hashes[i]...)
		x[r.Intn(32)] ^= 1 << uint(r.Intn(8))
		hashes[i] = x
	}
	c.proof = mkBlob(header, uint32(n), hashes, packBits(p.bits))
	if variant == 8 { // trailing bytes after the merkle block travel into the witness
		c.proof = append(c.proof, r.Bytes(3)...)
	}
	if variant == 9 { // undecodable bitcoin transaction
		c.btcTx = c.btcTx[:len(c.btcTx)/2]
		c.haveView = false
	}

	// fee rate num / 2^k
	switch r.Intn(10) {
	case 0:
		c.num, c.k = 0, 0
	case 1:
		c.num, c.k = 1, 1
	case 2:
		c.num, c.k = 3, 1
	case 3:
		c.num, c.k = 1, 10
	case 4:
		c.num, c.k = 1<<40, 0 // fee far above any amount
	case 5:
		c.num, c.k = uint64(1+r.Intn(4000)), r.Intn(12)
	default:
		c.num, c.k = 1, 0
	}
	return c
}

func genClaim(r *Rng, n int, w *bufio.Writer) {
	for i := 0; i < n; i++ {
		v := 0
		if i%3 == 2 {
			v = 1 + (i/3)%12
		}
		fmt.Fprintln(w, genClaimCase(r, v).line())
	}
}

func init() {
	gens["claim"] = genClaim
	runs["claim"] = runClaim
}
