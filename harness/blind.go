package main

// C05 — blinding families bv2 (psetv2.Blinder + bundled zkp generator, 1..3 parties
// exchanging the serialized packet) and bv0 (pset.Blinder).  Packets are built
// offline: UTXOs are made locally with random txids and the confidential.* helpers.
//
// Case line:  bv2 <shape> | <observed>      bv0 <shape> | <rng stream>
// The shape (+seed) determines the whole scenario; the observed part (blinders read
// back from the blinding args, generator/validator outcome bits) is what the Coq
// model needs in order to predict every published scalar and the last value blinder.

import (
	"bufio"
	"bytes"
	"crypto/sha256"
	"encoding/binary"
	"encoding/hex"
	"fmt"
	"math/big"
	"sort"
	"strconv"
	"strings"
	"sync"

	"github.com/btcsuite/btcd/btcec/v2"
	"github.com/vulpemventures/go-elements/confidential"
	"github.com/vulpemventures/go-elements/elementsutil"
	"github.com/vulpemventures/go-elements/pset"
	"github.com/vulpemventures/go-elements/psetv2"
	"github.com/vulpemventures/go-elements/transaction"
	secp256k1 "github.com/vulpemventures/go-secp256k1-zkp"
)

func init() {
	gens["bv2"] = genBV2
	gens["bv0"] = genBV0
	runs["bv2"] = func(t *Toks) string { return runBV2Line(t) }
	runs["bvh"] = func(t *Toks) string { return runBVHLine(t) }
	gens["bvh"] = genBVH
	checks["C05/bvh"] = checkBVH
	runs["bv0"] = func(t *Toks) string { return runBV0Line(t) }
	checks["C05/bv2"] = checkBV2
	checks["C05/bv0"] = checkBV0
}

// ---------------------------------------------------------------- shape

type bvIn struct {
	Conf       bool
	Asset      int // 0..9 base asset, 200+i token of the entropy attached to input i (reissuance input), 100+i the asset reissued at input i
	Value      uint64
	Iss        int // 0 none, 1 new issuance, 2 reissuance
	IssValue   uint64
	IssToken   uint64
	IssBlinded bool // psetv2 BlindedIssuance flag (flavour of the token id); v0: unused
	IssNoFlag  bool // psetv2: the packet carries no blinded-issuance flag field at all (defaults to blinded)
}
type bvOut struct {
	Asset      int // base asset, 100+i asset issued at input i, 200+i its token
	Value      uint64
	Blind      bool // carries a blinding pubkey
	BlinderIdx uint32
	Fee        bool // empty script
}
type bvParty struct {
	Ctor int // 0 NewZKPGeneratorFromOwnedInputs, 1 NewZKPGeneratorFromBlindingKeys
	Own  []uint32
	Outs []uint32
	Iss  []uint32
	Fail []uint32 // when not empty: a first call with only these outputs (meant to be refused), then the real call on the same Blinder
}
type bvShape struct {
	Seed    uint64
	Spec    int // 0 uniform blinders, 1 tiny blinders (edge cases of the scalar helpers)
	Ins     []bvIn
	Outs    []bvOut
	Parties []bvParty // bv2
	// bv0
	Sel      []int // output indexes given a blinding key
	IssKeys  bool
	NoTokKey bool // bv0: IssuanceBlindingPrivateKeys with the asset key only
	Ctor0    int  // 0 BlindingData, 1 PrivateBlindingKey
}

func (sh *bvShape) write(b *sb, v0 bool) {
	b.addn(sh.Seed)
	b.addn(uint64(sh.Spec))
	b.addn(uint64(len(sh.Ins)))
	for _, in := range sh.Ins {
		b.add(b2s(in.Conf))
		b.addn(uint64(in.Asset))
		b.addn(in.Value)
		b.addn(uint64(in.Iss))
		b.addn(in.IssValue)
		b.addn(in.IssToken)
		if in.IssNoFlag {
			b.addn(2)
		} else {
			b.add(b2s(in.IssBlinded))
		}
	}
	b.addn(uint64(len(sh.Outs)))
	for _, o := range sh.Outs {
		b.addn(uint64(o.Asset))
		b.addn(o.Value)
		b.add(b2s(o.Blind))
		b.addn(uint64(o.BlinderIdx))
		b.add(b2s(o.Fee))
	}
	wl := func(l []uint32) {
		b.addn(uint64(len(l)))
		for _, x := range l {
			b.addn(uint64(x))
		}
	}
	if !v0 {
		b.addn(uint64(len(sh.Parties)))
		for _, p := range sh.Parties {
			b.addn(uint64(p.Ctor))
			wl(p.Own)
			wl(p.Outs)
			wl(p.Iss)
			wl(p.Fail)
		}
	} else {
		b.addn(uint64(len(sh.Sel)))
		for _, x := range sh.Sel {
			b.addn(uint64(x))
		}
		if sh.IssKeys && sh.NoTokKey {
			b.addn(2)
		} else {
			b.add(b2s(sh.IssKeys))
		}
		b.addn(uint64(sh.Ctor0))
	}
}

func bvReadShape(t *Toks, v0 bool) *bvShape {
	sh := &bvShape{}
	sh.Seed = t.U64()
	sh.Spec = t.Int()
	n := t.Int()
	for i := 0; i < n; i++ {
		var in bvIn
		in.Conf = t.Int() == 1
		in.Asset = t.Int()
		in.Value = t.U64()
		in.Iss = t.Int()
		in.IssValue = t.U64()
		in.IssToken = t.U64()
		fl := t.Int()
		in.IssBlinded = fl == 1
		in.IssNoFlag = fl == 2
		sh.Ins = append(sh.Ins, in)
	}
	n = t.Int()
	for i := 0; i < n; i++ {
		var o bvOut
		o.Asset = t.Int()
		o.Value = t.U64()
		o.Blind = t.Int() == 1
		o.BlinderIdx = uint32(t.U64())
		o.Fee = t.Int() == 1
		sh.Outs = append(sh.Outs, o)
	}
	rl := func() []uint32 {
		k := t.Int()
		l := []uint32{}
		for j := 0; j < k; j++ {
			l = append(l, uint32(t.U64()))
		}
		return l
	}
	if !v0 {
		n = t.Int()
		for i := 0; i < n; i++ {
			var p bvParty
			p.Ctor = t.Int()
			p.Own = rl()
			p.Outs = rl()
			p.Iss = rl()
			p.Fail = rl()
			sh.Parties = append(sh.Parties, p)
		}
	} else {
		n = t.Int()
		for i := 0; i < n; i++ {
			sh.Sel = append(sh.Sel, t.Int())
		}
		km := t.Int()
		sh.IssKeys = km >= 1
		sh.NoTokKey = km == 2
		sh.Ctor0 = t.Int()
	}
	return sh
}

// ---------------------------------------------------------------- world

type bvWIn struct {
	txid      []byte // internal byte order
	vout      uint32
	script    []byte
	blindPriv []byte
	asset     []byte // 32 bytes, the order confidential.* expects
	abf, vbf  []byte // 32 bytes (zero for explicit)
	entropy   []byte // reissuance: entropy of the token being spent
	prevout   *transaction.TxOutput
	issAsset  []byte
	issToken  []byte
}
type bvWOut struct {
	script    []byte
	blindPriv []byte
	blindPub  []byte
	asset     []byte
}
type bvWorld struct {
	sh   *bvShape
	ins  []bvWIn
	outs []bvWOut
}

var bvSecpN, _ = new(big.Int).SetString("FFFFFFFFFFFFFFFFFFFFFFFFFFFFFFFEBAAEDCE6AF48A03BBFD25E8CD0364141", 16)

func bvScalar32(r *Rng, spec int) []byte {
	b := r.Bytes(32)
	if spec == 1 {
		x := b[31] % 5
		b = make([]byte, 32)
		b[31] = x
		return b
	}
	b[0] &= 0x7f
	return b
}

func bvP2wpkh(r *Rng) []byte { return append([]byte{0x00, 0x14}, r.Bytes(20)...) }

// base assets are the same in every scenario (a history spends different coins of the same assets)
func bvBaseAsset(seed uint64, k int) []byte {
	var b [8]byte
	binary.LittleEndian.PutUint64(b[:], uint64(k))
	h := sha256.Sum256(append([]byte("verif-asset"), b[:]...))
	return h[:]
}

func bvKeyFrom(r *Rng) []byte {
	k := r.Bytes(32)
	k[0] &= 0x7f
	k[31] |= 1
	return k
}

// bvBuildWorld materialises the shape: keys, scripts, txids, UTXO openings, asset ids.
// needProofs: confidential UTXOs get a real range proof (only needed to be unblinded by key).
func bvBuildWorld(sh *bvShape, needProofs bool, v0 bool) *bvWorld {
	r := NewRng(sh.Seed ^ 0x5eed)
	w := &bvWorld{sh: sh}
	for i, in := range sh.Ins {
		var wi bvWIn
		wi.txid = r.Bytes(32)
		wi.vout = uint32(r.Intn(4))
		wi.script = bvP2wpkh(r)
		wi.blindPriv = bvKeyFrom(r)
		wi.abf = make([]byte, 32)
		wi.vbf = make([]byte, 32)
		if in.Conf {
			wi.abf = bvScalar32(r, 0)
			wi.vbf = bvScalar32(r, 0)
		}
		wi.entropy = r.Bytes(32)
		switch in.Iss {
		case 1:
			e, _ := transaction.ComputeEntropy(wi.txid, wi.vout, make([]byte, 32))
			wi.issAsset, _ = transaction.ComputeAsset(append([]byte{}, e...))
			flag := uint(0)
			if (!v0 && (in.IssBlinded || in.IssNoFlag)) || (v0 && sh.IssKeys) {
				flag = 1
			}
			wi.issToken, _ = transaction.ComputeReissuanceToken(append([]byte{}, e...), flag)
		case 2:
			wi.issAsset, _ = transaction.ComputeAsset(append([]byte{}, wi.entropy...))
			wi.issToken, _ = transaction.ComputeReissuanceToken(append([]byte{}, wi.entropy...), 1)
		}
		_ = i
		w.ins = append(w.ins, wi)
	}
	for i, in := range sh.Ins {
		switch {
		case in.Asset >= 200:
			w.ins[i].asset = w.ins[in.Asset-200].issToken // a reissuance input spends the token of its own entropy
		case in.Asset >= 100:
			w.ins[i].asset = w.ins[in.Asset-100].issAsset // an existing UTXO of the asset reissued at input Asset-100
		default:
			w.ins[i].asset = bvBaseAsset(sh.Seed, in.Asset)
		}
	}
	for _, o := range sh.Outs {
		var wo bvWOut
		if !o.Fee {
			wo.script = bvP2wpkh(r)
		} else {
			wo.script = []byte{}
		}
		wo.blindPriv = bvKeyFrom(r)
		_, pub := btcec.PrivKeyFromBytes(wo.blindPriv)
		wo.blindPub = pub.SerializeCompressed()
		switch {
		case o.Asset >= 200:
			wo.asset = w.ins[o.Asset-200].issToken
		case o.Asset >= 100:
			wo.asset = w.ins[o.Asset-100].issAsset
		default:
			wo.asset = bvBaseAsset(sh.Seed, o.Asset)
		}
		w.outs = append(w.outs, wo)
	}
	// prevouts
	for i := range w.ins {
		wi := &w.ins[i]
		in := sh.Ins[i]
		if !in.Conf {
			val, _ := elementsutil.ValueToBytes(in.Value)
			wi.prevout = &transaction.TxOutput{
				Asset: append([]byte{0x01}, wi.asset...), Value: val, Script: wi.script, Nonce: []byte{0x00},
			}
			continue
		}
		ac, err := confidential.AssetCommitment(wi.asset, wi.abf)
		if err != nil {
			panic(err)
		}
		vc, err := confidential.ValueCommitment(in.Value, ac, wi.vbf)
		if err != nil {
			panic(err)
		}
		eph := bvKeyFrom(r)
		_, ephPub := btcec.PrivKeyFromBytes(eph)
		out := &transaction.TxOutput{Asset: ac, Value: vc, Script: wi.script, Nonce: ephPub.SerializeCompressed()}
		if needProofs {
			_, bpub := btcec.PrivKeyFromBytes(wi.blindPriv)
			nonce, err := confidential.NonceHash(bpub.SerializeCompressed(), eph)
			if err != nil {
				panic(err)
			}
			var vbf32 [32]byte
			copy(vbf32[:], wi.vbf)
			rp, err := confidential.RangeProof(confidential.RangeProofArgs{
				Value: in.Value, Nonce: nonce, Asset: append([]byte{}, wi.asset...), AssetBlindingFactor: wi.abf,
				ValueBlindFactor: vbf32, ValueCommit: vc, ScriptPubkey: wi.script, Exp: 0, MinBits: 52,
			})
			if err != nil {
				panic(err)
			}
			out.RangeProof = rp
		}
		wi.prevout = out
	}
	return w
}

func bvRevHex(b []byte) string { return hex.EncodeToString(elementsutil.ReverseBytes(b)) }

// ---------------------------------------------------------------- v2 packet

func (w *bvWorld) buildV2() (*psetv2.Pset, error) {
	sh := w.sh
	inArgs := []psetv2.InputArgs{}
	for _, wi := range w.ins {
		inArgs = append(inArgs, psetv2.InputArgs{Txid: bvRevHex(wi.txid), TxIndex: wi.vout})
	}
	outArgs := []psetv2.OutputArgs{}
	for j, o := range sh.Outs {
		a := psetv2.OutputArgs{Asset: bvRevHex(w.outs[j].asset), Amount: o.Value, Script: w.outs[j].script, BlinderIndex: o.BlinderIdx}
		if o.Blind {
			a.BlindingKey = w.outs[j].blindPub
		}
		outArgs = append(outArgs, a)
	}
	p, err := psetv2.New(inArgs, outArgs, nil)
	if err != nil {
		return nil, err
	}
	up, err := psetv2.NewUpdater(p)
	if err != nil {
		return nil, err
	}
	for i, wi := range w.ins {
		po := *wi.prevout
		rp := po.RangeProof
		po.RangeProof = nil
		if err := up.AddInWitnessUtxo(i, &po); err != nil {
			return nil, err
		}
		if len(rp) > 0 {
			if err := up.AddInUtxoRangeProof(i, rp); err != nil {
				return nil, err
			}
		}
		in := sh.Ins[i]
		switch in.Iss {
		case 1:
			fl := in.IssBlinded
			p.Inputs[i].IssuanceAssetEntropy = make([]byte, 32)
			p.Inputs[i].IssuanceValue = in.IssValue
			p.Inputs[i].IssuanceInflationKeys = in.IssToken
			p.Inputs[i].IssuanceBlindingNonce = make([]byte, 32)
			if !in.IssNoFlag {
				p.Inputs[i].BlindedIssuance = &fl
			}
		case 2:
			p.Inputs[i].IssuanceAssetEntropy = append([]byte{}, wi.entropy...)
			p.Inputs[i].IssuanceValue = in.IssValue
			p.Inputs[i].IssuanceBlindingNonce = append([]byte{}, wi.abf...)
		}
	}
	if err := p.SanityCheck(); err != nil {
		return nil, err
	}
	return p, nil
}

// recording wrappers around the bundled validator / generator (both are interfaces of psetv2)
type bvRecValidator struct {
	inner   psetv2.BlindingValidator
	allTrue bool
}

func (v *bvRecValidator) note(b bool) bool {
	if !b {
		v.allTrue = false
	}
	return b
}
func (v *bvRecValidator) VerifyValueRangeProof(a, b, c, d []byte) bool {
	return v.note(v.inner.VerifyValueRangeProof(a, b, c, d))
}
func (v *bvRecValidator) VerifyAssetSurjectionProof(a, b [][]byte, c, d, e []byte) bool {
	return v.note(v.inner.VerifyAssetSurjectionProof(a, b, c, d, e))
}
func (v *bvRecValidator) VerifyBlindValueProof(x uint64, a, b, c []byte) bool {
	return v.note(v.inner.VerifyBlindValueProof(x, a, b, c))
}
func (v *bvRecValidator) VerifyBlindAssetProof(a, b, c []byte) bool {
	return v.note(v.inner.VerifyBlindAssetProof(a, b, c))
}

type bvRecGenerator struct {
	inner psetv2.BlindingGenerator
	last  []byte
}

func (g *bvRecGenerator) ComputeAndAddToScalarOffset(s []byte, v uint64, a, b []byte) ([]byte, error) {
	return g.inner.ComputeAndAddToScalarOffset(s, v, a, b)
}
func (g *bvRecGenerator) SubtractScalars(a, b []byte) ([]byte, error) {
	return g.inner.SubtractScalars(a, b)
}
func (g *bvRecGenerator) LastValueCommitment(v uint64, a, b []byte) ([]byte, error) {
	g.last = append([]byte{}, b...)
	return g.inner.LastValueCommitment(v, a, b)
}
func (g *bvRecGenerator) LastBlindValueProof(v uint64, a, b, c []byte) ([]byte, error) {
	return g.inner.LastBlindValueProof(v, a, b, c)
}
func (g *bvRecGenerator) LastValueRangeProof(v uint64, a, b, c, d, e, f []byte) ([]byte, error) {
	return g.inner.LastValueRangeProof(v, a, b, c, d, e, f)
}

type bvZkpGen interface {
	psetv2.BlindingGenerator
	UnblindInputs(p *psetv2.Pset, idx []uint32) ([]psetv2.OwnedInput, error)
	BlindIssuances(p *psetv2.Pset, keys map[uint32][]byte) ([]psetv2.InputIssuanceBlindingArgs, error)
	BlindOutputs(p *psetv2.Pset, idx []uint32) ([]psetv2.OutputBlindingArgs, error)
}

// what one party did, read back from the library's own data
type bvPartyObs struct {
	FailArgs []psetv2.OutputBlindingArgs // arguments of the first (refused) call
	FailVOK  bool
	FailRes  string // "" no first call, else ok / err
	AtomOK   bool   // the first call, when refused, left Global.Scalars as they were
	GenOK    int    // generator stage: 1 arguments made, 0 error, 2 panic
	Owned    []psetv2.OwnedInput
	IssArgs  []psetv2.InputIssuanceBlindingArgs
	OutArgs  []psetv2.OutputBlindingArgs
	ValidOK  bool
	Res      string // ok / err / abort / panic
	Scalar   []byte // published scalar (non-last)
	LastVbf  []byte // last party
}

type bvV2Result struct {
	Obs   []bvPartyObs
	Done  bool
	Final *psetv2.Pset
}

func bvDetRng(seed uint64, party int, spec int) func() ([]byte, error) {
	r := NewRng(seed*31 + uint64(party)*7919 + 17)
	return func() ([]byte, error) { return bvScalar32(r, spec), nil }
}

func (w *bvWorld) ownedOf(idx []uint32) map[uint32]psetv2.OwnedInput {
	m := map[uint32]psetv2.OwnedInput{}
	for _, i := range idx {
		if int(i) >= len(w.ins) {
			continue
		}
		wi := w.ins[i]
		m[i] = psetv2.OwnedInput{
			Index: i, Value: w.sh.Ins[i].Value, Asset: bvRevHex(wi.asset),
			ValueBlinder: append([]byte{}, wi.vbf...), AssetBlinder: append([]byte{}, wi.abf...),
		}
	}
	return m
}

func bvRunV2(w *bvWorld) (res *bvV2Result) { return bvRunV2With(w, nil) }

// shared: one generator object used by every party (history family), nil = one generator per party
func bvRunV2With(w *bvWorld, shared bvZkpGen) (res *bvV2Result) {
	sh := w.sh
	res = &bvV2Result{}
	p, err := w.buildV2()
	if err != nil {
		panic("buildV2: " + err.Error())
	}
	for k, party := range sh.Parties {
		obs := bvPartyObs{ValidOK: true, FailVOK: true, AtomOK: true}
		// the packet travels serialized between parties; for every other scenario (even seed) also
		// between the updater that built it and the first blinder
		if k > 0 || sh.Seed%2 == 0 {
			s, err := p.ToBase64()
			if err != nil {
				panic("ToBase64: " + err.Error())
			}
			p, err = psetv2.NewPsetFromBase64(s)
			if err != nil {
				panic("FromBase64: " + err.Error())
			}
		}
		last := k == len(sh.Parties)-1
		stop := func(r string) {
			obs.Res = r
			res.Obs = append(res.Obs, obs)
		}
		opts := &confidential.ZKPGeneratorOpts{Rng: bvDetRng(sh.Seed, k, sh.Spec)}
		var gen bvZkpGen
		if shared != nil {
			gen = shared
		} else if party.Ctor == 0 {
			g, err := confidential.NewZKPGeneratorFromOwnedInputs(w.ownedOf(party.Own), opts)
			if err != nil {
				stop("abort")
				return
			}
			gen = g
		} else {
			keys := [][]byte{}
			for _, i := range party.Own {
				if int(i) < len(w.ins) {
					keys = append(keys, w.ins[i].blindPriv)
				}
			}
			gen = confidential.NewZKPGeneratorFromBlindingKeys(keys, opts)
		}
		func() {
			defer func() {
				if e := recover(); e != nil {
					obs.Res = "panic"
					if obs.GenOK == 0 {
						obs.GenOK = 2
					}
				}
			}()
			owned, err := gen.UnblindInputs(p, party.Own)
			if err != nil {
				obs.Res = "abort"
				return
			}
			obs.Owned = owned
			val := &bvRecValidator{inner: confidential.NewZKPValidator(), allTrue: true}
			rg := &bvRecGenerator{inner: gen}
			var issArgs []psetv2.InputIssuanceBlindingArgs
			if len(party.Iss) > 0 {
				keys := map[uint32][]byte{}
				for _, i := range party.Iss {
					if int(i) < len(w.ins) {
						keys[i] = w.ins[i].blindPriv
					} else {
						keys[i] = make([]byte, 32)
					}
				}
				issArgs, err = gen.BlindIssuances(p, keys)
				if err != nil {
					obs.Res = "abort"
					return
				}
			}
			var failArgs []psetv2.OutputBlindingArgs
			if len(party.Fail) > 0 {
				failArgs, err = gen.BlindOutputs(p, append([]uint32{}, party.Fail...))
				if err != nil {
					obs.Res = "abort"
					return
				}
			}
			outArgs, err := gen.BlindOutputs(p, append([]uint32{}, party.Outs...))
			if err != nil {
				obs.Res = "abort"
				return
			}
			obs.FailArgs = append([]psetv2.OutputBlindingArgs{}, failArgs...)
			obs.GenOK = 1
			obs.IssArgs = issArgs
			// the blinder sorts its argument in place: keep our own copy in generation order
			obs.OutArgs = append([]psetv2.OutputBlindingArgs{}, outArgs...)
			blinder, err := psetv2.NewBlinder(p, owned, val, rg)
			if err != nil {
				obs.Res = "err"
				return
			}
			if len(party.Fail) > 0 {
				before := [][]byte{}
				for _, x := range p.Global.Scalars {
					before = append(before, append([]byte{}, x...))
				}
				var ferr error
				if last {
					ferr = blinder.BlindLast(issArgs, failArgs)
				} else {
					ferr = blinder.BlindNonLast(issArgs, failArgs)
				}
				obs.FailVOK = val.allTrue
				val.allTrue = true
				obs.FailRes = "ok"
				if ferr != nil {
					obs.FailRes = "err"
					obs.AtomOK = len(before) == len(p.Global.Scalars)
					for i := range before {
						if obs.AtomOK && !bytes.Equal(before[i], p.Global.Scalars[i]) {
							obs.AtomOK = false
						}
					}
				}
			}
			nsc := len(p.Global.Scalars)
			if last {
				err = blinder.BlindLast(issArgs, outArgs)
			} else {
				err = blinder.BlindNonLast(issArgs, outArgs)
			}
			obs.ValidOK = val.allTrue
			if err != nil {
				obs.Res = "err"
				return
			}
			obs.Res = "ok"
			if !last && len(p.Global.Scalars) == nsc+1 {
				obs.Scalar = p.Global.Scalars[nsc]
			}
			if last {
				obs.LastVbf = rg.last
			}
		}()
		res.Obs = append(res.Obs, obs)
		if obs.Res != "ok" {
			return
		}
	}
	res.Done = true
	res.Final = p
	return
}

func bvHxo(b []byte) string { // nil and empty are both "-"; scalars are 32 bytes or absent
	return hx(b)
}

// observed part of the case line (input of the model)
func (r *bvV2Result) writeObs(b *sb) {
	b.addn(uint64(len(r.Obs)))
	for _, o := range r.Obs {
		b.addn(uint64(o.GenOK))
		b.add(b2s(o.ValidOK))
		b.addn(uint64(len(o.Owned)))
		for _, x := range o.Owned {
			b.addn(uint64(x.Index))
			b.addn(x.Value)
			b.add(bvHxo(x.AssetBlinder))
			b.add(bvHxo(x.ValueBlinder))
		}
		b.addn(uint64(len(o.IssArgs)))
		for _, x := range o.IssArgs {
			b.addn(uint64(x.Index))
			b.add(bvHxo(x.IssuanceValueBlinder))
			b.add(bvHxo(x.IssuanceTokenBlinder))
			b.add(b2s(len(x.IssuanceValueCommitment) > 0))
			b.add(b2s(len(x.IssuanceTokenCommitment) > 0))
		}
		b.addn(uint64(len(o.OutArgs)))
		for _, x := range o.OutArgs {
			b.addn(uint64(x.Index))
			b.add(bvHxo(x.AssetBlinder))
			b.add(bvHxo(x.ValueBlinder))
		}
		b.add(b2s(o.FailVOK))
		b.addn(uint64(len(o.FailArgs)))
		for _, x := range o.FailArgs {
			b.addn(uint64(x.Index))
			b.add(bvHxo(x.AssetBlinder))
			b.add(bvHxo(x.ValueBlinder))
		}
	}
}

func (r *bvV2Result) obsString() string {
	var b sb
	r.writeObs(&b)
	return strings.TrimSpace(b.String())
}

func bvV2ResultLine(w *bvWorld, r *bvV2Result) string {
	var parts []string
	for k, o := range r.Obs {
		s := o.Res
		if o.Res == "ok" {
			if k == len(w.sh.Parties)-1 {
				s = "ok:last:" + bvHxo(o.LastVbf)
			} else {
				s = "ok:" + bvHxo(o.Scalar)
			}
		}
		if o.FailRes != "" {
			s = "try." + o.FailRes + "." + b2s(o.AtomOK) + "/" + s
		}
		if o.GenOK == 1 {
			var ow []string
			for _, x := range o.Owned {
				ow = append(ow, fmt.Sprintf("%d:%d:%s:%s", x.Index, x.Value, bvHxo(x.AssetBlinder), bvHxo(x.ValueBlinder)))
			}
			parts = append(parts, fmt.Sprintf("o%d=%s", k, strings.Join(ow, ",")))
		}
		parts = append(parts, fmt.Sprintf("p%d=%s", k, s))
	}
	line := strings.Join(parts, " ")
	if r.Done {
		tx, err := r.Final.UnsignedTx()
		if err != nil {
			return line + " done=1 tx=err"
		}
		bl := ""
		for _, o := range tx.Outputs {
			bl += b2s(o.IsConfidential())
		}
		bal, err := w.balanced(tx, bvV2IssuanceView(r.Final))
		bs := b2s(bal)
		if err != nil {
			bs = "x"
		}
		line += " done=1 bl=" + bl + " bal=" + bs
	} else {
		line += " done=0"
	}
	return line
}

func bvNeedProofs(sh *bvShape, shared bool) bool {
	if shared {
		return true
	}
	for _, p := range sh.Parties {
		if p.Ctor != 0 {
			return true
		}
	}
	return false
}

// one bv2 scenario from its tokens (shape, openings, "|", observed part)
func bvRunV2Tokens(t *Toks, shared bvZkpGen) (string, *bvWorld, *bvV2Result) {
	sh := bvReadShape(t, false)
	w := bvBuildWorld(sh, bvNeedProofs(sh, shared != nil), false)
	bvReadOpenings(t, w)
	r := bvRunV2With(w, shared)
	// the observed part of the line must replay exactly (determinism of the scenario)
	rest := strings.Join(t.l, " ")
	if i := strings.Index(rest, "| "); i >= 0 {
		rest = rest[i+2:]
	}
	if strings.TrimSpace(rest) != r.obsString() {
		return "replay-mismatch " + bvV2ResultLine(w, r), w, r
	}
	return bvV2ResultLine(w, r), w, r
}

func runBV2Line(t *Toks) string {
	line, _, _ := bvRunV2Tokens(t, nil)
	return line
}

// ---- history family bvh: ONE generator object (built from all blinding keys) blinds several
// packets one after the other; the sub-scenarios are bv2 bodies separated by ";;"
func bvSplitHist(t *Toks) []*Toks {
	var subs []*Toks
	for _, part := range strings.Split(strings.Join(t.l, " "), " ;; ") {
		part = strings.TrimSpace(part)
		if part != "" {
			subs = append(subs, &Toks{l: strings.Split(part, " "), line: part})
		}
	}
	return subs
}

func bvSharedGen(shapes []*bvShape) bvZkpGen {
	keys := [][]byte{}
	for _, sh := range shapes {
		w := bvBuildWorld(sh, false, false)
		for _, wi := range w.ins {
			keys = append(keys, wi.blindPriv)
		}
	}
	opts := &confidential.ZKPGeneratorOpts{Rng: bvDetRng(shapes[0].Seed, 99, 0)}
	return confidential.NewZKPGeneratorFromBlindingKeys(keys, opts)
}

func bvHistShapes(subs []*Toks) []*bvShape {
	var shapes []*bvShape
	for _, st := range subs {
		c := &Toks{l: append([]string{}, st.l...), line: st.line}
		shapes = append(shapes, bvReadShape(c, false))
	}
	return shapes
}

func runBVHLine(t *Toks) string {
	subs := bvSplitHist(t)
	gen := bvSharedGen(bvHistShapes(subs))
	var out []string
	for _, st := range subs {
		line, _, _ := bvRunV2Tokens(st, gen)
		out = append(out, line)
	}
	return strings.Join(out, " ;; ")
}

// ---------------------------------------------------------------- independent arithmetic

var bvCurve = btcec.S256()

// bvParsePoint: 33-byte commitment (08/09) or generator (0a/0b): x coordinate, y is the
// quadratic-residue root for an even prefix and its negation for an odd one.
func bvParsePoint(b []byte) (*big.Int, *big.Int, error) {
	if len(b) != 33 || b[0] < 0x08 || b[0] > 0x0b {
		return nil, nil, fmt.Errorf("bad point encoding")
	}
	P := bvCurve.Params().P
	x := new(big.Int).SetBytes(b[1:])
	if x.Cmp(P) >= 0 {
		return nil, nil, fmt.Errorf("x out of range")
	}
	y2 := new(big.Int).Exp(x, big.NewInt(3), P)
	y2.Add(y2, big.NewInt(7)).Mod(y2, P)
	e := new(big.Int).Add(P, big.NewInt(1))
	e.Rsh(e, 2)
	y := new(big.Int).Exp(y2, e, P) // principal root: itself a quadratic residue (p = 3 mod 4)
	if new(big.Int).Exp(y, big.NewInt(2), P).Cmp(y2) != 0 {
		return nil, nil, fmt.Errorf("not on bvCurve")
	}
	if b[0]&1 == 1 {
		y.Sub(P, y)
	}
	return x, y, nil
}

type bvPt struct{ x, y *big.Int }

func (a bvPt) inf() bool { return a.x == nil || (a.x.Sign() == 0 && a.y.Sign() == 0) }
func bvPtAdd(a, b bvPt) bvPt {
	if a.inf() {
		return b
	}
	if b.inf() {
		return a
	}
	if a.x.Cmp(b.x) == 0 {
		if a.y.Cmp(b.y) != 0 {
			return bvPt{}
		}
		x, y := bvCurve.Double(a.x, a.y)
		return bvPt{x, y}
	}
	x, y := bvCurve.Add(a.x, a.y, b.x, b.y)
	return bvPt{x, y}
}
func bvPtEq(a, b bvPt) bool {
	if a.inf() || b.inf() {
		return a.inf() && b.inf()
	}
	return a.x.Cmp(b.x) == 0 && a.y.Cmp(b.y) == 0
}

func bvExplicitPoint(asset []byte, value uint64) (bvPt, error) {
	if value == 0 {
		return bvPt{}, nil
	}
	ctx, _ := secp256k1.ContextCreate(secp256k1.ContextBoth)
	defer secp256k1.ContextDestroy(ctx)
	g, err := secp256k1.GeneratorGenerate(ctx, asset)
	if err != nil {
		return bvPt{}, err
	}
	gb := g.Bytes()
	x, y, err := bvParsePoint(gb[:])
	if err != nil {
		return bvPt{}, err
	}
	v := new(big.Int).SetUint64(value)
	rx, ry := bvCurve.ScalarMult(x, y, v.Bytes())
	return bvPt{rx, ry}, nil
}

// bvAmountPoint: a value field (explicit 9 bytes / commitment 33 bytes) with the asset field next to it
func bvAmountPoint(valueField, assetField []byte) (bvPt, error) {
	if len(valueField) == 33 && valueField[0] != 0x01 {
		x, y, err := bvParsePoint(valueField)
		return bvPt{x, y}, err
	}
	if len(valueField) == 9 && valueField[0] == 0x01 {
		v, err := elementsutil.ValueFromBytes(valueField)
		if err != nil {
			return bvPt{}, err
		}
		if len(assetField) != 33 || assetField[0] != 0x01 {
			return bvPt{}, fmt.Errorf("explicit value next to a blinded asset")
		}
		return bvExplicitPoint(assetField[1:], v)
	}
	if len(valueField) == 1 && valueField[0] == 0x00 {
		return bvPt{}, nil
	}
	return bvPt{}, fmt.Errorf("bad value field")
}

type bvIssView struct {
	has         bool
	asset       []byte // 32
	token       []byte // 32
	amountField []byte
	tokenField  []byte
	amountRP    []byte
	tokenRP     []byte
}

func bvV2IssuanceView(p *psetv2.Pset) []bvIssView {
	v := make([]bvIssView, len(p.Inputs))
	for i := range p.Inputs {
		in := &p.Inputs[i]
		if !in.HasIssuance() {
			continue
		}
		v[i].has = true
		v[i].asset = in.GetIssuanceAssetHash()
		v[i].token = in.GetIssuanceInflationKeysHash()
		v[i].amountRP = in.IssuanceValueRangeproof
		v[i].tokenRP = in.IssuanceInflationKeysRangeproof
	}
	return v
}

// balanced: sum(spent) + sum(issued) == sum(outputs) (fee is an explicit output), on bvCurve points
func (w *bvWorld) balanced(tx *transaction.Transaction, iss []bvIssView) (bool, error) {
	var lhs, rhs bvPt
	for i, in := range tx.Inputs {
		po := w.ins[i].prevout
		p, err := bvAmountPoint(po.Value, po.Asset)
		if err != nil {
			return false, fmt.Errorf("prevout %d: %v", i, err)
		}
		lhs = bvPtAdd(lhs, p)
		if in.Issuance != nil {
			a := append([]byte{0x01}, w.ins[i].issAsset...)
			p, err := bvAmountPoint(in.Issuance.AssetAmount, a)
			if err != nil {
				return false, fmt.Errorf("issuance %d: %v", i, err)
			}
			lhs = bvPtAdd(lhs, p)
			tk := append([]byte{0x01}, w.ins[i].issToken...)
			p, err = bvAmountPoint(in.Issuance.TokenAmount, tk)
			if err != nil {
				return false, fmt.Errorf("issuance token %d: %v", i, err)
			}
			lhs = bvPtAdd(lhs, p)
		}
	}
	for j, o := range tx.Outputs {
		p, err := bvAmountPoint(o.Value, o.Asset)
		if err != nil {
			return false, fmt.Errorf("output %d: %v", j, err)
		}
		rhs = bvPtAdd(rhs, p)
	}
	return bvPtEq(lhs, rhs), nil
}

// surjection proof of an output against the generators a verifier sees
func bvVerifySurjectionOnChain(proof []byte, inGens [][]byte, outAsset []byte) bool {
	ctx, _ := secp256k1.ContextCreate(secp256k1.ContextBoth)
	defer secp256k1.ContextDestroy(ctx)
	pr, err := secp256k1.SurjectionProofParse(ctx, proof)
	if err != nil {
		return false
	}
	og, err := secp256k1.GeneratorParse(ctx, outAsset)
	if err != nil {
		return false
	}
	gs := []*secp256k1.Generator{}
	for _, g := range inGens {
		x, err := secp256k1.GeneratorParse(ctx, g)
		if err != nil {
			return false
		}
		gs = append(gs, x)
	}
	return secp256k1.SurjectionProofVerify(ctx, pr, gs, og)
}

func bvGenBytes(asset []byte) []byte {
	ctx, _ := secp256k1.ContextCreate(secp256k1.ContextBoth)
	defer secp256k1.ContextDestroy(ctx)
	g, err := secp256k1.GeneratorGenerate(ctx, asset)
	if err != nil {
		panic(err)
	}
	b := g.Bytes()
	return b[:]
}

// input tags as a verifier sees them. interleaved=true is the order of Elements'
// VerifyAmounts (input, its issuance asset, its token, next input...); false is the
// order the library uses everywhere (all inputs, then all issuance tags).
func (w *bvWorld) chainTags(tx *transaction.Transaction, interleaved bool) [][]byte {
	return w.chainTagsView(tx, interleaved, false)
}

// libView: like the library's BlindOutputs, list the issued asset tag even when the asset amount of
// the issuance is null (token-only issuance); a verifier lists a tag only for a non-null amount
func (w *bvWorld) chainTagsView(tx *transaction.Transaction, interleaved bool, libView bool) [][]byte {
	var ins, iss [][]byte
	for i, in := range tx.Inputs {
		po := w.ins[i].prevout
		var g []byte
		if len(po.Asset) == 33 && po.Asset[0] == 0x01 {
			g = bvGenBytes(po.Asset[1:])
		} else {
			g = po.Asset
		}
		var extra [][]byte
		if in.Issuance != nil {
			if libView || !(len(in.Issuance.AssetAmount) == 1 && in.Issuance.AssetAmount[0] == 0) {
				extra = append(extra, bvGenBytes(w.ins[i].issAsset))
			}
			if !(len(in.Issuance.TokenAmount) == 1 && in.Issuance.TokenAmount[0] == 0) {
				extra = append(extra, bvGenBytes(w.ins[i].issToken))
			}
		}
		ins = append(ins, g)
		if interleaved {
			ins = append(ins, extra...)
		} else {
			iss = append(iss, extra...)
		}
	}
	return append(ins, iss...)
}

var _ = bufio.NewWriter
var _ = bytes.Equal
var _ = sort.Ints
var _ = strconv.Itoa
var _ sync.Mutex
var _ = pset.New
