package main

// Implementation-side oracles (S) for C20: the property stated on block.MerkleBlock and
// pegin.Claim.  Used to search for failing inputs, never as evidence.

import (
	"bytes"
	"encoding/binary"
	"fmt"

	"github.com/vulpemventures/go-elements/transaction"
)

func filterMatched(txids [][]byte, matched []bool) [][]byte {
	var l [][]byte
	for i := range txids {
		if matched[i] {
			l = append(l, txids[i])
		}
	}
	return l
}
func sameList(a, b [][]byte) bool {
	if len(a) != len(b) {
		return false
	}
	for i := range a {
		if !bytes.Equal(a[i], b[i]) {
			return false
		}
	}
	return true
}

// ms is a subsequence of txids
func isSubseq(ms, txids [][]byte) bool {
	j := 0
	for _, m := range ms {
		for j < len(txids) && !bytes.Equal(txids[j], m) {
			j++
		}
		if j == len(txids) {
			return false
		}
		j++
	}
	return true
}

// C20 on a valid build: accepted with the block's root and exactly the matched ids in block
// order; every single corruption is rejected or yields a different root.
func checkC20Mk(t *Toks) string  { return checkMk(t, false) }

// the same on the mkc family, where the statement is taken literally for flag bits and counts too
// (those clauses do not hold of the BIP-37 format itself: known findings)
func checkC20Mkc(t *Toks) string { return checkMk(t, true) }

func checkMk(t *Toks, literal bool) string {
	header, txids, matched := readMk(t)
	n := len(txids)
	root := mkRootLevels(txids)
	p := mkPMT(txids, matched)
	flags := packBits(p.bits)
	good := runProof(mkBlob(header, uint32(n), p.hashes, flags))
	if good.class != "ok" {
		return fail("valid-proof-rejected", good.class)
	}
	if !bytes.Equal(good.root, root) {
		return fail("root", "differs-from-block-root")
	}
	if !sameList(good.matches, filterMatched(txids, matched)) {
		return fail("matches", fmt.Sprintf("got=%d/want=%d", len(good.matches), len(filterMatched(txids, matched))))
	}
	if !bytes.Equal(good.mb.BlockHeader.MerkleRoot.CloneBytes(), header[36:68]) {
		return fail("header-root", "differs")
	}
	// a second call on the same object gives the same answer
	if r2, m2, err := good.mb.ExtractMatches(); err != nil || !bytes.Equal(r2.CloneBytes(), root) || len(m2) != len(good.matches) {
		return fail("second-call", "differs")
	}
	sameRoot := func(hashes [][]byte, fl []byte, cnt uint32) (bool, proofRes) {
		r := runProof(mkBlob(header, cnt, hashes, fl))
		return r.class == "ok" && bytes.Equal(r.root, root), r
	}
	var softs []string
	addSoft := func(x string) {
		for _, y := range softs {
			if y == x {
				return
			}
		}
		softs = append(softs, x)
	}
	// failures of the literal statement that are inherent in the format (known findings), reported last
	// every hash, every byte (every bit for small blocks)
	hstep, bstep, fstep := 1, 1, 1
	if n > 40 { // larger blocks: a sample of the hashes, bytes and flag bits
		hstep, bstep = 1+len(p.hashes)/8, 8
		fstep = 1 + 8*len(flags)/64
	}
	for i := 0; i < len(p.hashes); i += hstep {
		for j := 0; j < 32; j += bstep {
			for b := 0; b < 8; b++ {
				if n > 9 && b != (i+j)%8 {
					continue
				}
				hs := append([][]byte{}, p.hashes...)
				x := append([]byte{}, hs[i]...)
				x[j] ^= 1 << uint(b)
				hs[i] = x
				if same, _ := sameRoot(hs, flags, uint32(n)); same {
					return fail("corrupt-hash-same-root", fmt.Sprintf("hash=%d/byte=%d", i, j))
				}
			}
		}
	}
	// every flag bit, padding included
	for i := 0; i < 8*len(flags); i += fstep {
		fl := append([]byte{}, flags...)
		fl[i/8] ^= 1 << uint(i%8)
		same, r := sameRoot(p.hashes, fl, uint32(n))
		if !same {
			continue
		}
		if !isSubseq(r.matches, txids) {
			return fail("unsound-match", fmt.Sprintf("flagbit=%d", i))
		}
		switch {
		case i >= len(p.bits):
			addSoft(fail("corrupt-flag-same-root", "padding"))
		case p.bitH[i] == 0:
			addSoft(fail("corrupt-flag-same-root", "leaf"))
		default:
			return fail("corrupt-flag-same-root", fmt.Sprintf("inner/bit=%d/height=%d", i, p.bitH[i]))
		}
	}
	// transaction count
	for _, c := range []uint32{0, uint32(n - 1), uint32(n + 1), uint32(2 * n), uint32(n + 256), 16666, 16667, 0x10000 + uint32(n), 0xffffffff} {
		if c == uint32(n) {
			continue
		}
		same, r := sameRoot(p.hashes, flags, c)
		if !same {
			continue
		}
		if c == 0 || c > 16666 {
			return fail("corrupt-count-same-root", fmt.Sprintf("outofrange/%d", c))
		}
		if !isSubseq(r.matches, txids) {
			return fail("unsound-match", fmt.Sprintf("count=%d", c))
		}
		addSoft(fail("corrupt-count-same-root", "inrange"))
	}
	// repeated-tail forgery (CVE-2012-2459): where a level of the tree has an odd width (the last node is
	// hashed with itself) and that last node is a complete subtree of 2^h leaves, a "block" that repeats
	// those leaves has the same merkle root; a proof for it that descends into both copies must be
	// refused (or give another root), whatever the level
	for h := 0; (1 << uint(h)) < n; h++ {
		w := 1 << uint(h)
		if n%w != 0 || (n/w)%2 == 0 || n/w < 3 {
			continue
		}
		ftx := append(append([][]byte{}, txids...), txids[n-w:]...)
		if !bytes.Equal(mkRootLevels(ftx), root) {
			return fail("forgery-construction", fmt.Sprintf("level=%d", h)) // harness error, not a finding
		}
		for variant := 0; variant < 3; variant++ {
			fm := append(append([]bool{}, matched...), matched[n-w:]...)
			switch variant {
			case 0: // the last id of both copies
				fm[n-1], fm[n+w-1] = true, true
			case 1: // all of both copies
				for i := n - w; i < n+w; i++ {
					fm[i] = true
				}
			case 2: // first id of the original, last id of the copy
				fm[n-w], fm[n+w-1] = true, true
			}
			fp := mkPMT(ftx, fm)
			r := runProof(mkBlob(header, uint32(n+w), fp.hashes, packBits(fp.bits)))
			if r.class == "ok" && bytes.Equal(r.root, root) {
				return fail("repeated-subtree-forgery-accepted", fmt.Sprintf("level=%d/count=%d->%d/matches=%d", h, n, n+w, len(r.matches)))
			}
		}
	}
	// surplus hash, surplus flag byte
	for _, extra := range [][]byte{p.hashes[len(p.hashes)-1], bytes.Repeat([]byte{0x5a}, 32), root} {
		if r := runProof(mkBlob(header, uint32(n), append(append([][]byte{}, p.hashes...), extra), flags)); r.class == "ok" {
			return fail("surplus-hash-accepted", "")
		}
	}
	for _, extra := range []byte{0x00, 0x01, 0xff} {
		if r := runProof(mkBlob(header, uint32(n), p.hashes, append(append([]byte{}, flags...), extra))); r.class == "ok" {
			return fail("surplus-bits-accepted", fmt.Sprintf("%02x", extra))
		}
	}
	// a missing hash / flag byte
	if same, _ := sameRoot(p.hashes[:len(p.hashes)-1], flags, uint32(n)); same {
		return fail("missing-hash-same-root", "")
	}
	if same, _ := sameRoot(p.hashes, flags[:len(flags)-1], uint32(n)); same {
		return fail("missing-flags-same-root", "")
	}
	if literal && len(softs) > 0 {
		return softs[len(t.line)%len(softs)] // rotate so that every class shows up in a run
	}
	return "OK"
}

// C20 on a raw merkle block: whatever is accepted reports only hashes of the proof, rejects
// surplus data and does not keep its root when a hash is altered.
func checkC20Proof(t *Toks) string {
	blob := t.Hex()
	r := runProof(blob)
	if r.class != "ok" {
		return "OK rejected"
	}
	pt := r.mb.PartialMerkleTree
	if !isSubseq(r.matches, pt.TxHashes) {
		return fail("match-not-in-proof", "")
	}
	hashes := append([][]byte{}, pt.TxHashes...)
	flags := packBits(pt.VBits)
	header := blob[:80]
	if uint32(len(r.matches)) > pt.TxTotalCount {
		return fail("more-matches-than-transactions", "")
	}
	if x := runProof(mkBlob(header, pt.TxTotalCount, append(append([][]byte{}, hashes...), hashes[0]), flags)); x.class == "ok" {
		return fail("surplus-hash-accepted", "raw")
	}
	if x := runProof(mkBlob(header, pt.TxTotalCount, hashes, append(append([]byte{}, flags...), 0))); x.class == "ok" {
		return fail("surplus-bits-accepted", "raw")
	}
	for i := range hashes {
		hs := append([][]byte{}, hashes...)
		x := append([]byte{}, hs[i]...)
		x[(i*7)%32] ^= 0x10
		hs[i] = x
		if y := runProof(mkBlob(header, pt.TxTotalCount, hs, flags)); y.class == "ok" && bytes.Equal(y.root, r.root) {
			return fail("corrupt-hash-same-root", fmt.Sprintf("raw/hash=%d", i))
		}
	}
	return "OK"
}

func elementsValue(v []byte) (uint64, bool) {
	if len(v) != 9 || v[0] != 1 {
		return 0, false
	}
	return binary.BigEndian.Uint64(v[1:]), true
}

func reverse(b []byte) []byte {
	o := make([]byte, len(b))
	for i := range b {
		o[len(b)-1-i] = b[i]
	}
	return o
}

// C20 on a claim: a claim is produced only for a proof whose root is the header's root and that
// matches exactly the bitcoin transaction; it spends the proven outpoint with the peg-in flag,
// carries the six-element witness and its outputs sum to the pegged amount.
func checkC20Claim(t *Toks) string {
	c := readClaim(t)
	// is the proof a proof of exactly this transaction? (decided with the independent walker ownExtract)
	oroot, omatches, ook := ownExtract(c.proof)
	proves := c.haveView && ook && bytes.Equal(oroot, c.proof[36:68]) &&
		len(omatches) == 1 && bytes.Equal(omatches[0], c.txid)
	pays, vout, amount := false, 0, uint64(0)
	for i := range c.outVals {
		if bytes.Equal(c.outScripts[i], c.mainScript) {
			pays, vout, amount = true, i, c.outVals[i]
		}
	}
	nmain := 0
	for i := range c.outScripts {
		if bytes.Equal(c.outScripts[i], c.mainScript) {
			nmain++
		}
	}
	rates := []float64{c.rate(), 0.1, 1.1, 0.011, 253.7}
	for ri, rate := range rates {
		tx, err := pegin_Claim(c, rate)
		if err != nil {
			if proves && pays {
				// since fix 858a1b0 a negative amount or a fee above the amount is refused: find the fee from the fee-free claim
				if int64(amount) < 0 {
					continue
				}
				if tx0, err0 := pegin_Claim(c, 0); err0 == nil {
					if fee := uint64(float64(tx0.VirtualSize()) * rate); fee > amount {
						continue
					}
				}
				return fail("claim-rejects-valid-proof", fmt.Sprintf("rate=%d", ri))
			}
			continue
		}
		if !proves {
			return fail("claim-accepts-bad-proof", "")
		}
		if !pays {
			return fail("claim-without-pegin-output", "")
		}
		if len(tx.Inputs) != 1 || len(tx.Outputs) != 2 {
			return fail("claim-shape", "counts")
		}
		in := tx.Inputs[0]
		if !bytes.Equal(in.Hash, c.txid) {
			return fail("claim-outpoint", "hash")
		}
		// the claimed outpoint must be an output of the bitcoin transaction that pays the peg-in script
		// (with several such outputs any of them is a legitimate choice; the amount follows the choice)
		if int(in.Index) >= len(c.outVals) || !bytes.Equal(c.outScripts[in.Index], c.mainScript) {
			return fail("claim-outpoint", "not-a-pegin-output")
		}
		if nmain == 1 && in.Index != uint32(vout) {
			return fail("claim-outpoint", "index")
		}
		pegged := c.outVals[in.Index] // the pegged amount is the value of the claimed outpoint
		if !in.IsPegin {
			return fail("claim-pegin-flag", "field")
		}
		ser, err := tx.Serialize()
		if err != nil {
			return fail("claim-serialize", "")
		}
		back, err := transaction.NewTxFromBuffer(bytes.NewBuffer(ser))
		if err != nil || len(back.Inputs) != 1 || !back.Inputs[0].IsPegin || back.Inputs[0].Index != in.Index ||
			binary.LittleEndian.Uint32(ser[6+32:6+36])&0x40000000 == 0 {
			return fail("claim-pegin-flag", "wire")
		}
		var le [8]byte
		binary.LittleEndian.PutUint64(le[:], pegged)
		want := [][]byte{le[:], c.asset[1:], reverse(c.genesis), c.claimScript, c.stripped, c.proof}
		if len(in.PeginWitness) != 6 {
			return fail("claim-witness", fmt.Sprintf("len=%d", len(in.PeginWitness)))
		}
		for i := range want {
			if !bytes.Equal(in.PeginWitness[i], want[i]) {
				return fail("claim-witness", fmt.Sprintf("element=%d", i))
			}
		}
		// the fifth element is the witness-stripped transaction: it hashes to the txid the proof proves
		if !bytes.Equal(dsha(in.PeginWitness[4]), omatches[0]) {
			return fail("claim-witness", "stripped-tx-does-not-hash-to-the-proven-txid")
		}
		if !sameList(back.Inputs[0].PeginWitness, in.PeginWitness) {
			return fail("claim-witness", "wire")
		}
		for i, o := range tx.Outputs {
			if !bytes.Equal(o.Asset, c.asset) {
				return fail("claim-output-asset", fmt.Sprint(i))
			}
		}
		if !bytes.Equal(tx.Outputs[0].Script, c.claimScript) || len(tx.Outputs[1].Script) != 0 {
			return fail("claim-output-script", "")
		}
		v0, ok0 := elementsValue(tx.Outputs[0].Value)
		v1, ok1 := elementsValue(tx.Outputs[1].Value)
		if !ok0 || !ok1 {
			return fail("claim-output-value", "not-explicit")
		}
		if v1 > pegged {
			if v0+v1 == pegged { // wrapped modulo 2^64
				return fail("claim-fee-wrap", "fee-exceeds-amount")
			}
			return fail("claim-sum", "fee-exceeds-amount-and-not-even-modular")
		}
		if v0+v1 != pegged || v0 > pegged {
			return fail("claim-sum", fmt.Sprintf("rate=%d/outputs-paying-pegin-script=%d", ri, nmain))
		}
	}
	return "OK"
}

func init() {
	checks["C20/mk"] = checkC20Mk
	checks["C20/mkc"] = checkC20Mkc
	checks["C20/mkdense"] = checkC20Mk
	checks["C20/mkdbig"] = checkC20Mk
	checks["C20/proof"] = checkC20Proof
	checks["C20/claim"] = checkC20Claim
}
