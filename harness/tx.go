package main

import (
	"bufio"
	"bytes"
	"crypto/sha256"
	"fmt"
	"github.com/btcsuite/btcd/chaincfg/chainhash"
	"github.com/vulpemventures/fastsha256"
	"os"

	"github.com/vulpemventures/go-elements/transaction"
)

// ---------- abstract transaction text format (shared with ocaml/driver.ml) ----------

func readTx(t *Toks) *transaction.Transaction {
	tx := &transaction.Transaction{}
	tx.Version = int32(uint32(t.U64()))
	tx.Flag = int32(t.U64())
	tx.Locktime = uint32(t.U64())
	nin := t.Int()
	for i := 0; i < nin; i++ {
		in := &transaction.TxInput{}
		in.Hash = t.Hex()
		in.Index = uint32(t.U64())
		in.Sequence = uint32(t.U64())
		in.Script = t.Hex()
		in.IsPegin = t.Int() == 1
		if t.Int() == 1 {
			iss := &transaction.TxIssuance{}
			iss.AssetBlindingNonce = t.Hex()
			iss.AssetEntropy = t.Hex()
			iss.AssetAmount = t.Hex()
			iss.TokenAmount = t.Hex()
			in.Issuance = iss
		}
		in.IssuanceRangeProof = t.Hex()
		in.InflationRangeProof = t.Hex()
		in.Witness = t.HexList()
		in.PeginWitness = t.HexList()
		tx.Inputs = append(tx.Inputs, in)
	}
	nout := t.Int()
	for i := 0; i < nout; i++ {
		o := &transaction.TxOutput{}
		o.Asset = t.Hex()
		o.Value = t.Hex()
		o.Script = t.Hex()
		o.Nonce = t.Hex()
		o.RangeProof = t.Hex()
		o.SurjectionProof = t.Hex()
		tx.Outputs = append(tx.Outputs, o)
	}
	useTx(tx)
	return tx
}

// useTx turns a freshly built transaction into a USED object before any check sees it: every read-only method is
// called while the object is in a different state (each field class replaced in place, counts unchanged), then the
// fields are put back in place. Whatever a method remembers inside the object (or in the package) from an earlier
// state must not show in later results: the properties quantify over transactions, not over fresh objects.
func useTx(tx *transaction.Transaction) {
	if os.Getenv("VERIF_NO_USED_TX") != "" || len(tx.Inputs) > 24 || len(tx.Outputs) > 24 {
		return
	}
	defer func() { _ = recover() }()
	type savedIn struct {
		in  transaction.TxInput
		iss *transaction.TxIssuance
	}
	var sin []savedIn
	for _, in := range tx.Inputs {
		s := savedIn{in: *in}
		if in.Issuance != nil {
			c := *in.Issuance
			s.iss = &c
		}
		sin = append(sin, s)
	}
	var sout []transaction.TxOutput
	for _, o := range tx.Outputs {
		sout = append(sout, *o)
	}
	ver, lt := tx.Version, tx.Locktime
	restore := func() {
		tx.Version, tx.Locktime = ver, lt
		for i, in := range tx.Inputs {
			iss := in.Issuance
			*in = sin[i].in
			if sin[i].iss != nil && iss != nil {
				*iss = *sin[i].iss
				in.Issuance = iss
			}
		}
		for i, o := range tx.Outputs {
			*o = sout[i]
		}
	}
	defer restore()
	tx.Version ^= 1
	tx.Locktime ^= 1
	for _, in := range tx.Inputs {
		in.Sequence ^= 0x80000000
		if len(in.Hash) > 0 {
			in.Hash = flipLast(in.Hash)
		}
		in.Script = grow(in.Script)
		if in.Issuance != nil && len(in.Issuance.AssetEntropy) > 0 {
			in.Issuance.AssetEntropy = flipLast(in.Issuance.AssetEntropy)
		}
		in.IssuanceRangeProof = grow(in.IssuanceRangeProof)
		in.Witness = append(append([][]byte{}, in.Witness...), []byte{7})
	}
	for _, o := range tx.Outputs {
		if len(o.Value) > 0 {
			o.Value = altValue(o.Value)
		}
		o.Script = grow(o.Script)
		o.RangeProof = grow(o.RangeProof)
		o.SurjectionProof = grow(o.SurjectionProof)
	}
	tx.TxHash()
	tx.WitnessHash()
	tx.HasWitness()
	tx.SerializeSize(true, false)
	tx.SerializeSize(false, false)
	tx.Weight()
	tx.VirtualSize()
	tx.DiscountWeight()
	tx.DiscountVirtualSize()
	tx.Serialize()
	if len(tx.Inputs) > 0 && wfTx(tx) {
		tx.HashForSignature(0, []byte{0x51}, 1)
		tx.HashForWitnessV0(0, []byte{0x51}, []byte{1, 0, 0, 0, 0, 0, 0, 0, 1}, 0x41)
	}
}

func writeTx(b *sb, tx *transaction.Transaction) {
	b.addn(uint64(uint32(tx.Version)))
	b.addn(uint64(uint32(tx.Flag)))
	b.addn(uint64(tx.Locktime))
	b.addn(uint64(len(tx.Inputs)))
	for _, in := range tx.Inputs {
		b.addh(in.Hash)
		b.addn(uint64(in.Index))
		b.addn(uint64(in.Sequence))
		b.addh(in.Script)
		b.add(b2s(in.IsPegin))
		if in.Issuance != nil {
			b.add("1")
			b.addh(in.Issuance.AssetBlindingNonce)
			b.addh(in.Issuance.AssetEntropy)
			b.addh(in.Issuance.AssetAmount)
			b.addh(in.Issuance.TokenAmount)
		} else {
			b.add("0")
		}
		b.addh(in.IssuanceRangeProof)
		b.addh(in.InflationRangeProof)
		b.addl(in.Witness)
		b.addl(in.PeginWitness)
	}
	b.addn(uint64(len(tx.Outputs)))
	for _, o := range tx.Outputs {
		b.addh(o.Asset)
		b.addh(o.Value)
		b.addh(o.Script)
		b.addh(o.Nonce)
		b.addh(o.RangeProof)
		b.addh(o.SurjectionProof)
	}
}

func dumpTx(tx *transaction.Transaction) string {
	var b sb
	writeTx(&b, tx)
	return b.commas()
}

// ---------- generator ----------

type lenBudget struct{ big int }

func (lb *lenBudget) pick(r *Rng) int {
	k := r.Intn(100)
	switch {
	case k < 55:
		return r.Intn(40)
	case k < 70:
		return 0
	case k < 92:
		return r.Pick(0xfc, 0xfd, 0xfe, 0xff, 0x100, 0x101)
	default:
		if lb.big > 0 {
			lb.big--
			return r.Pick(0xffff, 0x10000, 0x10001)
		}
		return r.Intn(300)
	}
}

func genValue(r *Rng, allowBad bool) []byte {
	k := r.Intn(100)
	switch {
	case k < 20:
		return []byte{0}
	case k < 55:
		return append([]byte{1}, r.Bytes(8)...)
	case k < 75:
		return append([]byte{8}, r.Bytes(32)...)
	case k < 95:
		return append([]byte{9}, r.Bytes(32)...)
	default:
		if !allowBad {
			return append([]byte{1}, r.Bytes(8)...)
		}
		switch r.Intn(4) {
		case 0:
			return append([]byte{1}, r.Bytes(7)...)
		case 1:
			return append([]byte{byte(r.Pick(2, 7, 10, 255))}, r.Bytes(8)...)
		case 2:
			return nil
		default:
			return append([]byte{8}, r.Bytes(33)...)
		}
	}
}

func genAsset(r *Rng, allowBad bool) []byte {
	k := r.Intn(100)
	if k < 95 || !allowBad {
		return append([]byte{byte(r.Pick(1, 10, 11))}, r.Bytes(32)...)
	}
	switch r.Intn(3) {
	case 0:
		return append([]byte{byte(r.Pick(0, 2, 9, 12))}, r.Bytes(32)...)
	case 1:
		return append([]byte{1}, r.Bytes(31)...)
	default:
		return nil
	}
}

func genNonce(r *Rng, allowBad bool) []byte {
	k := r.Intn(100)
	switch {
	case k < 40:
		return []byte{0}
	case k < 85:
		return append([]byte{byte(r.Pick(1, 2, 3))}, r.Bytes(32)...)
	case k < 95:
		return []byte{byte(r.Pick(4, 5, 0x80, 0xff))}
	default:
		if !allowBad {
			return []byte{0}
		}
		switch r.Intn(3) {
		case 0:
			return append([]byte{2}, r.Bytes(31)...)
		case 1:
			return nil
		default:
			return append([]byte{0}, r.Bytes(3)...)
		}
	}
}

func genWitness(r *Rng, lb *lenBudget) [][]byte {
	if r.Chance(55) {
		return nil
	}
	n := r.Pick(1, 1, 2, 3, 4)
	if r.Chance(3) {
		n = r.Pick(0xfc, 0xfd)
	}
	var w [][]byte
	for i := 0; i < n; i++ {
		l := lb.pick(r)
		if n > 10 {
			l = r.Intn(3)
		}
		w = append(w, r.Bytes(l))
	}
	return w
}

// genTx builds a transaction value from PRNG choices. wfOnly restricts the choices
// to values the wire format can represent (the domain of the round-trip theorem).
func genTx(r *Rng, wfOnly bool) *transaction.Transaction {
	lb := &lenBudget{big: 0}
	if r.Chance(3) {
		lb.big = 1
	}
	bad := !wfOnly
	tx := &transaction.Transaction{}
	switch r.Intn(5) {
	case 0:
		tx.Version = 1
	case 1:
		tx.Version = 2
	case 2:
		tx.Version = -1
	case 3:
		tx.Version = 0
	default:
		tx.Version = int32(uint32(r.U64()))
	}
	tx.Flag = int32(r.Pick(0, 0, 0, 1, 1, 2))
	if wfOnly && tx.Flag == 2 {
		tx.Flag = 0
	}
	tx.Locktime = uint32(r.U64())
	if r.Chance(30) {
		tx.Locktime = uint32(r.Pick(0, 1, 499999999, 500000000, 0xffffffff))
	}
	nin := r.Pick(0, 1, 1, 2, 2, 3, 5)
	if r.Chance(2) {
		nin = r.Pick(0xfc, 0xfd, 0xfe)
	}
	for i := 0; i < nin; i++ {
		in := &transaction.TxInput{}
		in.Hash = r.Bytes(32)
		if bad && r.Chance(3) {
			in.Hash = r.Bytes(r.Pick(0, 31, 33))
		}
		switch r.Intn(8) {
		case 0:
			in.Index = 0
		case 1:
			in.Index = 0x3fffffff
		case 2:
			in.Index = 0xffffffff
		case 3:
			in.Index = uint32(r.Intn(4))
		default:
			in.Index = uint32(r.U64()) & 0x3fffffff
		}
		if bad && r.Chance(3) {
			in.Index = uint32(r.U64()) | 0x40000000
		}
		in.Sequence = uint32(r.U64())
		if r.Chance(40) {
			in.Sequence = uint32(r.Pick(0, 0xffffffff, 0xfffffffe, 1))
		}
		sl := lb.pick(r)
		if nin > 10 {
			sl = r.Intn(3)
		}
		in.Script = r.Bytes(sl)
		if in.Index != 0xffffffff || bad {
			in.IsPegin = r.Chance(20)
			if r.Chance(30) {
				iss := &transaction.TxIssuance{}
				iss.AssetBlindingNonce = r.Bytes(32)
				if r.Chance(50) {
					iss.AssetBlindingNonce = make([]byte, 32)
				}
				iss.AssetEntropy = r.Bytes(32)
				if bad && r.Chance(4) {
					iss.AssetEntropy = r.Bytes(r.Pick(0, 31, 33))
				}
				iss.AssetAmount = genValue(r, bad)
				iss.TokenAmount = genValue(r, bad)
				in.Issuance = iss
			}
		}
		if wfOnly && in.Index == 0x3fffffff && in.IsPegin && in.Issuance != nil {
			in.IsPegin = false
		}
		if wfOnly && in.Index == 0xffffffff {
			in.IsPegin = false
			in.Issuance = nil
		}
		if nin <= 10 {
			if r.Chance(25) {
				in.IssuanceRangeProof = r.Bytes(lb.pick(r))
			}
			if r.Chance(15) {
				in.InflationRangeProof = r.Bytes(lb.pick(r))
			}
			in.Witness = genWitness(r, lb)
			if r.Chance(40) {
				in.PeginWitness = genWitness(r, lb)
			}
		}
		tx.Inputs = append(tx.Inputs, in)
	}
	nout := r.Pick(0, 1, 1, 2, 2, 3, 4)
	if r.Chance(2) {
		nout = r.Pick(0xfc, 0xfd, 0xfe)
	}
	for i := 0; i < nout; i++ {
		o := &transaction.TxOutput{}
		o.Asset = genAsset(r, bad)
		o.Value = genValue(r, bad)
		o.Nonce = genNonce(r, bad)
		sl := lb.pick(r)
		if nout > 10 {
			sl = r.Intn(3)
		}
		o.Script = r.Bytes(sl)
		if nout <= 10 {
			if r.Chance(35) {
				o.RangeProof = r.Bytes(lb.pick(r))
			}
			if r.Chance(35) {
				o.SurjectionProof = r.Bytes(lb.pick(r))
			}
		}
		tx.Outputs = append(tx.Outputs, o)
	}
	return tx
}

func genTxCases(r *Rng, n int, w *bufio.Writer) {
	for i := 0; i < n; i++ {
		tx := genTx(r, i%4 != 3) // three quarters inside the round-trip domain
		var b sb
		b.add("tx")
		writeTx(&b, tx)
		fmt.Fprintln(w, b.String())
	}
}

// malformed stream: single mutations and truncations of valid encodings, plus noise
func genRawCases(r *Rng, n int, w *bufio.Writer) {
	for i := 0; i < n; i++ {
		tx := genTx(r, true)
		ser, _ := tx.Serialize()
		var m []byte
		switch r.Intn(10) {
		case 9: // the length of the first input script written in a wider varint form, at the form boundaries
			if len(tx.Inputs) == 0 || len(tx.Inputs) >= 0xfd {
				m = ser
				break
			}
			L := r.Pick(0, 1, 0xfc, 0xfd, 0xfe, 0xffff, 0xffff, 0x10000)
			tx.Inputs[0].Script = r.Bytes(L)
			ser, _ = tx.Serialize()
			const off = 4 + 1 + 1 + 36 // version, flag, input count, outpoint
			var canon, wide []byte
			switch {
			case L < 0xfd:
				canon = []byte{byte(L)}
			case L <= 0xffff:
				canon = []byte{0xfd, byte(L), byte(L >> 8)}
			default:
				canon = []byte{0xfe, byte(L), byte(L >> 8), byte(L >> 16), byte(L >> 24)}
			}
			switch k := r.Intn(3); {
			case k == 0 && L <= 0xffff:
				wide = []byte{0xfd, byte(L), byte(L >> 8)}
			case k <= 1:
				wide = []byte{0xfe, byte(L), byte(L >> 8), byte(L >> 16), byte(L >> 24)}
			default:
				wide = []byte{0xff, byte(L), byte(L >> 8), byte(L >> 16), byte(L >> 24), 0, 0, 0, 0}
			}
			if len(ser) < off+len(canon) || !bytes.Equal(ser[off:off+len(canon)], canon) {
				m = ser
				break
			}
			m = append(append(append([]byte{}, ser[:off]...), wide...), ser[off+len(canon):]...)
		case 0: // valid as is
			m = ser
		case 1: // truncation
			if len(ser) > 0 {
				m = ser[:r.Intn(len(ser))]
			}
		case 2: // truncation near the end
			k := r.Intn(6)
			if k > len(ser) {
				k = len(ser)
			}
			m = ser[:len(ser)-k]
		case 3: // one byte altered
			m = append([]byte{}, ser...)
			if len(m) > 0 {
				m[r.Intn(len(m))] ^= byte(1 << uint(r.Intn(8)))
			}
		case 4: // byte in the header area altered (flag, counts, prefixes)
			m = append([]byte{}, ser...)
			if len(m) > 6 {
				m[4+r.Intn(2)] = byte(r.Pick(0, 1, 2, 0xfc, 0xfd, 0xfe, 0xff))
			}
		case 5: // tail appended
			m = append(append([]byte{}, ser...), r.Bytes(1+r.Intn(5))...)
		case 6: // huge count spliced in
			m = append([]byte{}, ser...)
			if len(m) > 5 {
				p := 5 + r.Intn(len(m)-5)
				big := []byte{0xff, 0xff, 0xff, 0xff, 0xff, 0xff, 0xff, 0xff, 0xff}
				if r.Bool() {
					big = []byte{0xfe, 0xff, 0xff, 0xff, 0x7f}
				}
				m = append(append(append([]byte{}, m[:p]...), big...), m[p:]...)
			}
		case 7: // non-canonical varint spliced in
			m = append([]byte{}, ser...)
			if len(m) > 5 {
				m = append(append(append([]byte{}, m[:5]...), []byte{0xfd, 0x01, 0x00}...), m[6:]...)
			}
		default:
			m = r.Bytes(r.Intn(80))
		}
		fmt.Fprintf(w, "raw %s\n", hx(m))
	}
}

// ---------- run ----------

func runTx(t *Toks) string {
	tx := readTx(t)
	ser, err := tx.Serialize()
	if err != nil {
		return "ser-error"
	}
	parsed := "none"
	buf := bytes.NewBuffer(append([]byte{}, ser...))
	if p, err := transaction.NewTxFromBuffer(buf); err == nil {
		parsed = fmt.Sprintf("%s/rest=%d", dumpTx(p), buf.Len())
	}
	txid := tx.TxHash()
	wtxid := tx.WitnessHash()
	cp := tx.Copy()
	return fmt.Sprintf("ser=%s sz0=%x sz1=%x w=%x vs=%x dw=%d dvs=%d hasw=%s txid=%s wtxid=%s parse=%s copy=%s",
		hx(ser), tx.SerializeSize(false, false), tx.SerializeSize(true, false), tx.Weight(), tx.VirtualSize(),
		tx.DiscountWeight(), tx.DiscountVirtualSize(), b2s(tx.HasWitness()), hx(txid[:]), hx(wtxid[:]), parsed, dumpTx(cp))
}

func canonFlag(tx *transaction.Transaction) bool { return tx.Flag == 0 || tx.Flag == 1 }

func runRaw(t *Toks) string {
	bs := t.Hex()
	buf := bytes.NewBuffer(append([]byte{}, bs...))
	p, err := transaction.NewTxFromBuffer(buf)
	if err != nil {
		return "parse=none"
	}
	re, err := p.Serialize()
	if err != nil {
		return "reser-error"
	}
	return fmt.Sprintf("parse=%s rest=%d reser=%s canon=%s", dumpTx(p), buf.Len(), hx(re), b2s(canonFlag(p)))
}

func init() {
	gens["tx"] = genTxCases
	gens["raw"] = genRawCases
	runs["tx"] = runTx
	runs["raw"] = runRaw
}

// ---------- sha: the hash primitives the models execute (SHA-256, double SHA-256, the mid-state helper) ----------
func genShaCases(r *Rng, n int, w *bufio.Writer) {
	lens := []int{0, 1, 31, 32, 33, 55, 56, 57, 63, 64, 65, 119, 120, 127, 128, 129, 1000}
	for i := 0; i < n; i++ {
		l := lens[i%len(lens)]
		if i >= 2*len(lens) {
			l = r.Intn(300)
		}
		fmt.Fprintf(w, "sha %s\n", hx(r.Bytes(l)))
	}
}

func runSha(t *Toks) string {
	bs := t.Hex()
	one := sha256.Sum256(bs)
	two := chainhash.DoubleHashB(bs)
	mid := fastsha256.MidState256(append([]byte{}, bs...))
	return fmt.Sprintf("sha=%s dsha=%s mid=%s", hx(one[:]), hx(two), hx(mid[:]))
}

func init() {
	gens["sha"] = genShaCases
	runs["sha"] = runSha
}
