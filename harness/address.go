package main

import (
	"bufio"
	"fmt"
	"strings"

	"github.com/btcsuite/btcd/btcec/v2"
	"github.com/btcsuite/btcd/btcutil/base58"
	"github.com/btcsuite/btcd/btcutil/bech32"
	"github.com/vulpemventures/go-elements/address"
	"github.com/vulpemventures/go-elements/blech32"
	"github.com/vulpemventures/go-elements/network"
	"github.com/vulpemventures/go-elements/payment"
)

// address family: case lines
//
//	adrdec  <string hex>                               every string-consuming function of package address
//	adrenc  58 <ver> <data> | 58c <cver> <ver> <key> <data> | b <prefix> <ver> <prog>
//	        | bl <prefix> <ver> <key> <prog> | tc <addr> <key>
//	adrpay  <net> <hash> <whash> <tapkey> <blinding key 33>   the ten address methods of payment.Payment
//	adrscr  <pubkey 33> <redeem script>                payment.FromPublicKey / FromPayment hashes and scripts
//	adrform <net> <type 0..4> <payload> <key 33>       S only: all clauses of C14 on one (network, type, payload, key)
//	adrnest 0 <net> <blind 33> <m> <n> <key 33>...      FromPublicKeys -> FromPayment (P2SH-P2WSH multisig)
//	adrnest 1 <net> <blind 33> <hash 20|32>             FromScript(p2sh / p2wsh script) -> FromPayment
//	adrnest 2 <net> <blind 33> <pubkey 33>              FromPublicKey -> FromPayment -> FromPayment
//	                                                   prints hashes, scripts and the ten addresses of the outer payment
//	                                                   and of every Redeem level
//	adrhist <s1> <s2>                                  history: decode s1, scribble over every returned slice, the same with
//	                                                   s2, then decode both again; prints the LAST answers for s1 and s2

var adrNets = []*network.Network{&network.Liquid, &network.Regtest, &network.Testnet}

func netIndex(n *network.Network) string {
	switch n.Name {
	case "liquid":
		return "0"
	case "regtest":
		return "1"
	case "testnet":
		return "2"
	}
	return "?"
}

// guard runs f and classifies a panic
func guard(f func() string) (s string) {
	defer func() {
		if e := recover(); e != nil {
			s = "panic"
		}
	}()
	return f()
}

func hxs(s string) string { return hx([]byte(s)) }

func runAdrDec(t *Toks) string { return adrDecLine(string(t.Hex())) }

// adrDecLine runs every string-consuming function of package address on s; the result is a
// pure function of s (the model computes it without any state)
func adrDecLine(s string) string {
	var b strings.Builder
	b.WriteString("net=" + guard(func() string {
		n, err := address.NetworkForAddress(s)
		if err != nil {
			return "err"
		}
		return netIndex(n)
	}))
	b.WriteString(" type=" + guard(func() string {
		ty, err := address.DecodeType(s)
		if err != nil {
			return "err"
		}
		return fmt.Sprint(ty)
	}))
	b.WriteString(" conf=" + guard(func() string {
		c, err := address.IsConfidential(s)
		if err != nil {
			return "err"
		}
		return b2s(c)
	}))
	b.WriteString(" script=" + guard(func() string {
		sc, err := address.ToOutputScript(s)
		if err != nil {
			return "err"
		}
		return "ok:" + hx(sc)
	}))
	b.WriteString(" b58=" + guard(func() string {
		r, err := address.FromBase58(s)
		if err != nil {
			return "err"
		}
		return fmt.Sprintf("ok:%d:%s", r.Version, hx(r.Data))
	}))
	b.WriteString(" b58c=" + guard(func() string {
		r, err := address.FromBase58Confidential(s)
		if err != nil {
			return "err"
		}
		return fmt.Sprintf("ok:%d:%d:%s:%s", r.Version, r.Base58.Version, hx(r.PublicKey), hx(r.Data))
	}))
	b.WriteString(" bech=" + guard(func() string {
		r, err := address.FromBech32(s)
		if err != nil {
			return "err"
		}
		return fmt.Sprintf("ok:%s:%d:%s", hxs(r.Prefix), r.Version, hx(r.Program))
	}))
	b.WriteString(" blech=" + guard(func() string {
		r, err := address.FromBlech32(s)
		if err != nil {
			return "err"
		}
		return fmt.Sprintf("ok:%s:%d:%s:%s", hxs(r.Prefix), r.Version, hx(r.PublicKey), hx(r.Program))
	}))
	b.WriteString(" fc=" + guard(func() string {
		r, err := address.FromConfidential(s)
		if err != nil {
			return "err"
		}
		return fmt.Sprintf("ok:%s:%s:%s", hxs(r.Address), hx(r.BlindingKey), hx(r.Script))
	}))
	return b.String()
}

func cp(b []byte) []byte { return append(make([]byte, 0, len(b)), b...) }

func runAdrEnc(t *Toks) string {
	kind := t.Next()
	return "res=" + guard(func() string {
		switch kind {
		case "58":
			v, d := t.Int(), t.Hex()
			return "ok:" + hxs(address.ToBase58(&address.Base58{Version: byte(v), Data: d}))
		case "58c":
			cv, v, k, d := t.Int(), t.Int(), t.Hex(), t.Hex()
			return "ok:" + hxs(address.ToBase58Confidential(&address.Base58Confidential{
				Base58: address.Base58{Version: byte(v), Data: d}, Version: byte(cv), PublicKey: cp(k)}))
		case "b":
			p, v, pr := string(t.Hex()), t.Int(), t.Hex()
			s, err := address.ToBech32(&address.Bech32{Prefix: p, Version: byte(v), Program: pr})
			if err != nil {
				return "err"
			}
			return "ok:" + hxs(s)
		case "bl":
			p, v, k, pr := string(t.Hex()), t.Int(), t.Hex(), t.Hex()
			s, err := address.ToBlech32(&address.Blech32{Prefix: p, Version: byte(v), PublicKey: cp(k), Program: pr})
			if err != nil {
				return "err"
			}
			return "ok:" + hxs(s)
		case "tc":
			a, k := string(t.Hex()), t.Hex()
			s, err := address.ToConfidential(&address.AddressInfo{Address: a, BlindingKey: cp(k)})
			if err != nil {
				return "err"
			}
			return "ok:" + hxs(s)
		}
		panic("bad adrenc kind")
	})
}

func adrPayment(net *network.Network, hash, whash, tapkey, key []byte) (*payment.Payment, bool) {
	bk, err := btcec.ParsePubKey(key)
	if err != nil {
		return nil, false
	}
	p := &payment.Payment{Hash: hash, WitnessHash: whash, Network: net, BlindingKey: bk,
		Taproot: &payment.TaprootPaymentData{XOnlyTweakedKey: tapkey}}
	return p, true
}

func adrPayMethods(p *payment.Payment) []func() (string, error) {
	return []func() (string, error){p.PubKeyHash, p.ConfidentialPubKeyHash, p.ScriptHash, p.ConfidentialScriptHash,
		p.WitnessPubKeyHash, p.ConfidentialWitnessPubKeyHash, p.WitnessScriptHash, p.ConfidentialWitnessScriptHash,
		p.TaprootAddress, p.ConfidentialTaprootAddress}
}

func runAdrPay(t *Toks) string {
	net := adrNets[t.Int()]
	hash, whash, tapkey, key := t.Hex(), t.Hex(), t.Hex(), t.Hex()
	p, ok := adrPayment(net, hash, whash, tapkey, key)
	if !ok {
		return "badkey"
	}
	var b strings.Builder
	for i, m := range adrPayMethods(p) {
		m := m
		if i > 0 {
			b.WriteByte(' ')
		}
		fmt.Fprintf(&b, "a%d=%s", i, guard(func() string {
			s, err := m()
			if err != nil {
				return "err"
			}
			return "ok:" + hxs(s)
		}))
	}
	return b.String()
}

func runAdrScr(t *Toks) string {
	pub, redeem := t.Hex(), t.Hex()
	pk, err := btcec.ParsePubKey(pub)
	if err != nil {
		return "badkey"
	}
	p := payment.FromPublicKey(pk, &network.Liquid, nil)
	out := fmt.Sprintf("pkh=%s p2pkh=%s p2wpkh=%s", hx(p.Hash), hx(p.Script), hx(p.WitnessScript))
	r, err := payment.FromScript(redeem, &network.Liquid, nil)
	if err != nil {
		return out + " sh=err"
	}
	w, err := payment.FromPayment(r)
	if err != nil {
		return out + " sh=err"
	}
	return out + fmt.Sprintf(" sh=%s wsh=%s p2sh=%s p2wsh=%s", hx(w.Hash), hx(w.WitnessHash), hx(w.Script), hx(w.WitnessScript))
}

// ---------- generators ----------

func genKey33(r *Rng) []byte {
	for {
		priv, pub := btcec.PrivKeyFromBytes(r.Bytes(32))
		_ = priv
		if pub != nil {
			return pub.SerializeCompressed()
		}
	}
}

// adrEncode builds the address of (net, type 0..4 = P2PKH P2SH P2WPKH P2WSH P2TR, payload, key or nil)
// with the library's own encoders
func adrEncode(net *network.Network, ty int, payload, key []byte) (string, error) {
	switch ty {
	case 0, 1:
		v := net.PubKeyHash
		if ty == 1 {
			v = net.ScriptHash
		}
		if key == nil {
			return address.ToBase58(&address.Base58{Version: v, Data: payload}), nil
		}
		return address.ToBase58Confidential(&address.Base58Confidential{
			Base58: address.Base58{Version: v, Data: payload}, Version: net.Confidential, PublicKey: cp(key)}), nil
	default:
		ver := byte(0)
		if ty == 4 {
			ver = 1
		}
		if key == nil {
			return address.ToBech32(&address.Bech32{Prefix: net.Bech32, Version: ver, Program: payload})
		}
		return address.ToBlech32(&address.Blech32{Prefix: net.Blech32, Version: ver, PublicKey: cp(key), Program: payload})
	}
}

func adrPayloadLen(ty int) int {
	if ty == 0 || ty == 1 || ty == 2 {
		return 20
	}
	return 32
}

func genAdrValid(r *Rng) (string, *network.Network, int, []byte, []byte) {
	net := adrNets[r.Intn(3)]
	ty := r.Intn(5)
	payload := r.Bytes(adrPayloadLen(ty))
	var key []byte
	if r.Bool() {
		key = genKey33(r)
		if r.Chance(30) {
			key = r.Bytes(33) // package address takes any 33 bytes
		}
	}
	s, err := guardEnc(func() (string, error) { return adrEncode(net, ty, payload, key) })
	if err != nil {
		s = ""
	}
	return s, net, ty, payload, key
}

func guardEnc(f func() (string, error)) (s string, err error) {
	defer func() {
		if e := recover(); e != nil {
			s, err = "", fmt.Errorf("panic")
		}
	}()
	return f()
}

const b58alphabet = "123456789ABCDEFGHJKLMNPQRSTUVWXYZabcdefghijkmnopqrstuvwxyz"

func genAdrDec(r *Rng, n int, w *bufio.Writer) {
	for i := 0; i < n; i++ {
		s, net, _, payload, key := genAdrValid(r)
		b := []byte(s)
		switch k := r.Intn(100); {
		case k < 45 || len(b) < 10: // as is
		case k < 52: // upper-case spelling (meaningful for the segwit forms)
			b = []byte(strings.ToUpper(s))
		case k < 58: // bech32 with the constant of the other version (suspect v), all versions 0..17
			ver := byte(r.Pick(0, 0, 1, 1, 2, 16, 17))
			prog := r.Bytes(r.Pick(20, 32, 32, 2, 40, 41, 1))
			conv, _ := bech32.ConvertBits(prog, 8, 5, true)
			data := append([]byte{ver}, conv...)
			var x string
			if r.Bool() {
				x, _ = bech32.Encode(net.Bech32, data)
			} else {
				x, _ = bech32.EncodeM(net.Bech32, data)
			}
			b = []byte(x)
		case k < 60: // segwit strings whose padding bits are not zero (valid checksum): must not be recognised
			ver := byte(r.Intn(2))
			plen := 32
			if ver == 0 && r.Bool() {
				plen = 20
			}
			prog := r.Bytes(plen)
			if r.Bool() {
				conv, _ := bech32.ConvertBits(prog, 8, 5, true)
				conv[len(conv)-1] |= byte(1 + r.Intn(1<<uint(len(conv)*5-plen*8)-1))
				data := append([]byte{ver}, conv...)
				var x string
				if ver == 0 {
					x, _ = bech32.Encode(net.Bech32, data)
				} else {
					x, _ = bech32.EncodeM(net.Bech32, data)
				}
				b = []byte(x)
			} else {
				conv, _ := blech32.ConvertBits(append(r.Bytes(33), prog...), 8, 5, true)
				conv[len(conv)-1] |= byte(1 + r.Intn(1<<uint(len(conv)*5-(plen+33)*8)-1))
				data := append([]byte{ver}, conv...)
				enc := blech32.BLECH32
				if ver == 1 {
					enc = blech32.BLECH32M
				}
				x, _ := b32Encode(net.Blech32, data, enc)
				b = []byte(x)
			}
		case k < 61: // one or two extra all-zero 5-bit groups before a correctly computed checksum:
			// a second spelling of the same payload, which the regrouping must refuse
			ver := byte(r.Intn(2))
			plen := 32
			if ver == 0 && r.Bool() {
				plen = 20
			}
			prog := r.Bytes(plen)
			extra := make([]byte, 1+r.Intn(2))
			if r.Chance(70) {
				conv, _ := blech32.ConvertBits(append(genKey33(r), prog...), 8, 5, true)
				data := append(append([]byte{ver}, conv...), extra...)
				enc := blech32.BLECH32
				if (ver == 1) != r.Chance(10) {
					enc = blech32.BLECH32M
				}
				x, _ := b32Encode(net.Blech32, data, enc)
				b = []byte(x)
			} else {
				conv, _ := bech32.ConvertBits(prog, 8, 5, true)
				data := append(append([]byte{ver}, conv...), extra...)
				var x string
				if ver == 0 {
					x, _ = bech32.Encode(net.Bech32, data)
				} else {
					x, _ = bech32.EncodeM(net.Bech32, data)
				}
				b = []byte(x)
			}
		case k < 62: // version-1 programs of every admitted length, confidential or not, and mixed-case spellings
			prog := r.Bytes(r.Pick(2, 20, 31, 32, 33, 40))
			var x string
			if r.Bool() {
				x, _ = guardEnc(func() (string, error) {
					return address.ToBech32(&address.Bech32{Prefix: net.Bech32, Version: 1, Program: prog})
				})
			} else {
				x, _ = guardEnc(func() (string, error) {
					return address.ToBlech32(&address.Blech32{Prefix: net.Blech32, Version: 1, PublicKey: genKey33(r), Program: prog})
				})
			}
			b = []byte(x)
			if one := strings.LastIndexByte(x, '1'); one > 0 && r.Chance(30) {
				up := strings.ToUpper(x)
				switch r.Intn(3) {
				case 0:
					b = []byte(up[:one+1] + x[one+1:]) // upper-case prefix, lower-case data
				case 1:
					b = []byte(x[:one+1] + up[one+1:])
				default:
					b = []byte(up)
					p := one + 1 + r.Intn(len(b)-one-1)
					b[p] = x[p]
				}
			}
		case k < 64: // blech32 with other versions / lengths / constants
			ver := byte(r.Pick(0, 1, 1, 2, 16))
			prog := r.Bytes(r.Pick(20, 32, 0, 1, 10, 40, 41))
			k33 := r.Bytes(r.Pick(33, 33, 33, 5, 0))
			conv, _ := blech32.ConvertBits(append(k33, prog...), 8, 5, true)
			data := append([]byte{ver}, conv...)
			enc := blech32.BLECH32
			if r.Bool() {
				enc = blech32.BLECH32M
			}
			x, _ := b32Encode(net.Blech32, data, enc)
			b = []byte(x)
		case k < 72: // base58check with other versions and payload lengths
			ver := byte(r.Pick(int(net.PubKeyHash), int(net.ScriptHash), int(net.Confidential), int(net.Confidential), r.Intn(256)))
			var d []byte
			switch r.Intn(5) {
			case 0:
				d = r.Bytes(20)
			case 1:
				d = append([]byte{net.PubKeyHash}, r.Bytes(53)...)
			case 2:
				d = append([]byte{byte(r.Intn(256))}, r.Bytes(53)...)
			case 3:
				d = r.Bytes(r.Intn(40)) // short confidential payloads: decoded[34:]
			default:
				d = r.Bytes(r.Pick(19, 21, 53, 55, 34, 33))
			}
			b = []byte(base58.CheckEncode(d, ver))
		case k < 80: // one character substituted
			p := r.Intn(len(b))
			if strings.Contains(s, "1") && (strings.HasPrefix(s, net.Bech32) || strings.HasPrefix(s, net.Blech32)) {
				b[p] = b32OtherChar(r, b[p])
			} else {
				b[p] = b58alphabet[r.Intn(58)]
			}
		case k < 85: // the other network's prefix glued on
			o := adrNets[r.Intn(3)]
			one := strings.LastIndexByte(s, '1')
			if one > 0 && (strings.HasPrefix(s, net.Bech32) || strings.HasPrefix(s, net.Blech32)) {
				b = []byte(r.pickStr(o.Bech32, o.Blech32) + s[one:])
			}
		case k < 90: // truncated
			b = b[:r.Intn(len(b))]
		case k < 92: // checksum-valid segwit strings with a foreign human-readable part
			h := r.pickStr("exx", "lqx", "exq", "tlqq", "elx", "ertt", "lq1", "e", "ex1ex") 
			prog := r.Bytes(r.Pick(20, 32))
			if r.Bool() {
				conv, _ := bech32.ConvertBits(prog, 8, 5, true)
				x, _ := bech32.Encode(h, append([]byte{0}, conv...))
				b = []byte(x)
			} else {
				conv, _ := blech32.ConvertBits(append(r.Bytes(33), prog...), 8, 5, true)
				x, _ := b32Encode(h, append([]byte{0}, conv...), blech32.BLECH32)
				b = []byte(x)
			}
		case k < 95: // garbage with a recognised prefix
			b = []byte(r.pickStr("ex", "lq", "ert", "el", "tex", "tlq", "ex1", "lq1", "el1q", "tlq1p"))
			for j := r.Intn(60); j > 0; j-- {
				b = append(b, b32charset[r.Intn(32)])
			}
		default:
			b = r.Bytes(r.Intn(40))
		}
		_ = payload
		_ = key
		fmt.Fprintf(w, "adrdec %s\n", hx(b))
	}
}

func (r *Rng) pickStr(xs ...string) string { return xs[r.Intn(len(xs))] }

func genAdrEnc(r *Rng, n int, w *bufio.Writer) {
	for i := 0; i < n; i++ {
		net := adrNets[r.Intn(3)]
		switch r.Intn(5) {
		case 0:
			fmt.Fprintf(w, "adrenc 58 %d %s\n", r.Pick(int(net.PubKeyHash), int(net.ScriptHash), r.Intn(256)), hx(r.Bytes(r.Pick(20, 20, 20, 0, 1, 32))))
		case 1:
			fmt.Fprintf(w, "adrenc 58c %d %d %s %s\n", r.Pick(int(net.Confidential), r.Intn(256)),
				r.Pick(int(net.PubKeyHash), int(net.ScriptHash), r.Intn(256)), hx(r.Bytes(r.Pick(33, 33, 33, 32, 0))), hx(r.Bytes(r.Pick(20, 20, 20, 19, 0))))
		case 2:
			fmt.Fprintf(w, "adrenc b %s %d %s\n", hxs(r.pickStr(net.Bech32, net.Bech32, "EX", "a", "", "bc")),
				r.Pick(0, 0, 1, 1, 2, 16, 17, 255), hx(r.Bytes(r.Pick(20, 32, 32, 0, 1, 2, 40, 41, 60))))
		case 3:
			fmt.Fprintf(w, "adrenc bl %s %d %s %s\n", hxs(r.pickStr(net.Blech32, net.Blech32, net.Blech32, "LQ", "a", "", "xyz")),
				r.Pick(0, 0, 1, 1, 2, 16), hx(r.Bytes(r.Pick(33, 33, 33, 32, 0, 34))), hx(r.Bytes(r.Pick(20, 32, 32, 0, 1, 21, 40, 41))))
		default:
			s, _, _, _, _ := genAdrValid(r)
			if r.Chance(15) {
				s = r.pickStr("ex1qqqq", "lq1qqqq", "", "ert", "2dxyz", s+"x")
			}
			fmt.Fprintf(w, "adrenc tc %s %s\n", hxs(s), hx(r.Bytes(r.Pick(33, 33, 33, 0, 32))))
		}
	}
}

func genAdrPay(r *Rng, n int, w *bufio.Writer) {
	for i := 0; i < n; i++ {
		fmt.Fprintf(w, "adrpay %d %s %s %s %s\n", r.Intn(3), hx(r.Bytes(r.Pick(20, 20, 20, 0, 32))),
			hx(r.Bytes(r.Pick(20, 32, 32, 0, 21))), hx(r.Bytes(r.Pick(32, 32, 32, 0, 31, 33))), hx(genKey33(r)))
	}
}

func genAdrScr(r *Rng, n int, w *bufio.Writer) {
	for i := 0; i < n; i++ {
		redeem := append([]byte{0x52}, r.Bytes(r.Intn(120))...)
		fmt.Fprintf(w, "adrscr %s %s\n", hx(genKey33(r)), hx(redeem))
	}
}

func genAdrForm(r *Rng, n int, w *bufio.Writer) {
	for i := 0; i < n; i++ {
		// cycle through the 3 x 5 (network, type) combinations; confidential or not is covered inside the check
		net, ty := i%3, (i/3)%5
		args := fmt.Sprintf("%d %d %s %s", net, ty, hx(r.Bytes(adrPayloadLen(ty))), hx(genKey33(r)))
		fmt.Fprintf(w, "adrform %s\n", args)
		if ty >= 2 {
			fmt.Fprintf(w, "adrcase %s\nadrconst %s\nadrforeign %s\n", args, args, args)
		}
	}
}

func runAdrForm(t *Toks) string {
	net := adrNets[t.Int()]
	ty := t.Int()
	payload, key := t.Hex(), t.Hex()
	u, err1 := guardEnc(func() (string, error) { return adrEncode(net, ty, payload, nil) })
	c, err2 := guardEnc(func() (string, error) { return adrEncode(net, ty, payload, key) })
	if err1 != nil || err2 != nil {
		return "res=err"
	}
	return "res=ok u=" + hxs(u) + " c=" + hxs(c)
}

func showBech(r *address.Bech32, err error) string {
	if err != nil {
		return "err"
	}
	return fmt.Sprintf("ok:%s:%d:%s", hxs(r.Prefix), r.Version, hx(r.Program))
}

// upper-case spellings of the segwit forms: decode and re-encode
func runAdrCase(t *Toks) string {
	net := adrNets[t.Int()]
	ty := t.Int()
	payload, key := t.Hex(), t.Hex()
	u, err1 := guardEnc(func() (string, error) { return adrEncode(net, ty, payload, nil) })
	c, err2 := guardEnc(func() (string, error) { return adrEncode(net, ty, payload, key) })
	if err1 != nil || err2 != nil {
		return "res=err"
	}
	U, C := strings.ToUpper(u), strings.ToUpper(c)
	ub := guard(func() string { return showBech(address.FromBech32(U)) })
	ur := guard(func() string {
		d, err := address.FromBech32(U)
		if err != nil {
			return "err"
		}
		r, err := address.ToBech32(d)
		if err != nil {
			return "err"
		}
		return "ok:" + hxs(r)
	})
	cb := guard(func() string {
		d, err := address.FromBlech32(C)
		if err != nil {
			return "err"
		}
		return fmt.Sprintf("ok:%s:%d:%s:%s", hxs(d.Prefix), d.Version, hx(d.PublicKey), hx(d.Program))
	})
	cr := guard(func() string {
		d, err := address.FromBlech32(C)
		if err != nil {
			return "err"
		}
		d.PublicKey = cp(d.PublicKey)
		r, err := address.ToBlech32(d)
		if err != nil {
			return "err"
		}
		return "ok:" + hxs(r)
	})
	return fmt.Sprintf("ub=%s ur=%s cb=%s cr=%s", ub, ur, cb, cr)
}

// the same program under the checksum constant of the other witness version
func runAdrConst(t *Toks) string {
	net := adrNets[t.Int()]
	ty := t.Int()
	payload, key := t.Hex(), t.Hex()
	x, y := adrOtherConst(net, ty, payload, key)
	ty2 := func(s string) string {
		return guard(func() string {
			v, err := address.DecodeType(s)
			if err != nil {
				return "err"
			}
			return fmt.Sprint(v)
		})
	}
	return fmt.Sprintf("x=%s xt=%s xb=%s y=%s yt=%s", hxs(x), ty2(x), guard(func() string { return showBech(address.FromBech32(x)) }), hxs(y), ty2(y))
}

func init() {
	runs["adrcase"] = runAdrCase
	runs["adrconst"] = runAdrConst
	gens["adrdec"] = genAdrDec
	gens["adrenc"] = genAdrEnc
	gens["adrpay"] = genAdrPay
	gens["adrscr"] = genAdrScr
	gens["adrform"] = genAdrForm
	runs["adrdec"] = runAdrDec
	runs["adrenc"] = runAdrEnc
	runs["adrpay"] = runAdrPay
	runs["adrscr"] = runAdrScr
	runs["adrform"] = runAdrForm
}

// ---------- histories: decoded values belong to the caller ----------

func scribble(b []byte) {
	b = b[:cap(b)]
	for i := range b {
		b[i] ^= 0xa5
	}
	for i := range b {
		b[i] = byte(0xc0 + i)
	}
}

// adrScribbleAll calls every decoder entry point that returns byte slices on s and overwrites
// every returned slice (all bytes, full capacity), as a caller that owns the values may do
func adrScribbleAll(s string) {
	guard(func() string {
		if r, err := address.FromBase58(s); err == nil {
			scribble(r.Data)
		}
		return ""
	})
	guard(func() string {
		if r, err := address.FromBase58Confidential(s); err == nil {
			scribble(r.Data)
			scribble(r.PublicKey)
		}
		return ""
	})
	guard(func() string {
		if r, err := address.FromBech32(s); err == nil {
			scribble(r.Program)
		}
		return ""
	})
	guard(func() string {
		if r, err := address.FromBlech32(s); err == nil {
			scribble(r.PublicKey)
			scribble(r.Program)
		}
		return ""
	})
	guard(func() string {
		if r, err := address.FromConfidential(s); err == nil {
			scribble(r.BlindingKey)
			scribble(r.Script)
		}
		return ""
	})
	guard(func() string {
		if sc, err := address.ToOutputScript(s); err == nil {
			scribble(sc)
		}
		return ""
	})
}

// adrHistory: first answers, scribbling, interleaving with the other string, last answers
func adrHistory(s1, s2 string) (first1, first2, last1, last2 string) {
	first1 = adrDecLine(s1)
	adrScribbleAll(s1)
	first2 = adrDecLine(s2)
	adrScribbleAll(s2)
	adrScribbleAll(s1)
	last1 = adrDecLine(s1)
	adrScribbleAll(s1)
	last2 = adrDecLine(s2)
	return
}

func runAdrHist(t *Toks) string {
	s1, s2 := string(t.Hex()), string(t.Hex())
	_, _, l1, l2 := adrHistory(s1, s2)
	return l1 + " ;; " + l2
}

func genAdrHist(r *Rng, n int, w *bufio.Writer) {
	for i := 0; i < n; i++ {
		net := adrNets[r.Intn(3)]
		ty := r.Intn(5)
		if r.Chance(60) {
			ty = 2 + r.Intn(3) // the segwit forms carry the longest decoded values
		}
		key := genKey33(r)
		var k1, k2 []byte
		if r.Chance(75) {
			k1 = key
		}
		if r.Chance(75) {
			k2 = key // sibling: another payload under the same blinding key
		}
		ty2 := ty
		if r.Chance(25) {
			ty2 = r.Intn(5)
		}
		s1, e1 := guardEnc(func() (string, error) { return adrEncode(net, ty, r.Bytes(adrPayloadLen(ty)), k1) })
		s2, e2 := guardEnc(func() (string, error) { return adrEncode(net, ty2, r.Bytes(adrPayloadLen(ty2)), k2) })
		if e1 != nil || e2 != nil {
			s1, s2 = "lq1qqqq", "ex1qqqq"
		}
		if r.Chance(10) {
			s2 = strings.ToUpper(s2)
		}
		fmt.Fprintf(w, "adrhist %s %s\n", hxs(s1), hxs(s2))
	}
}

func init() {
	runs["adrhist"] = runAdrHist
	gens["adrhist"] = genAdrHist
}

// ---------- nested payments ----------

// adrNestChain builds the nested payment of a case line; wrapped[i] is the payment that was handed
// to FromPayment to obtain the level whose Redeem is compared with it (nil when none)
func adrNestChain(t *Toks) (outer *payment.Payment, wrapped []*payment.Payment, ok bool) {
	kind := t.Int()
	net := adrNets[t.Int()]
	bk, err := btcec.ParsePubKey(t.Hex())
	if err != nil {
		return nil, nil, false
	}
	switch kind {
	case 0:
		m, n := t.Int(), t.Int()
		var keys []*btcec.PublicKey
		for i := 0; i < n; i++ {
			k, err := btcec.ParsePubKey(t.Hex())
			if err != nil {
				return nil, nil, false
			}
			keys = append(keys, k)
		}
		inner, err := payment.FromPublicKeys(keys, m, net, bk)
		if err != nil {
			return nil, nil, false
		}
		out, err := payment.FromPayment(inner)
		if err != nil {
			return inner, nil, true
		}
		return out, []*payment.Payment{inner}, true
	case 1:
		h := t.Hex()
		var script []byte
		if len(h) == 20 {
			script = append(append([]byte{0xa9, 0x14}, h...), 0x87)
		} else {
			script = append([]byte{0x00, byte(len(h))}, h...)
		}
		p, err := payment.FromScript(script, net, bk)
		if err != nil {
			return nil, nil, false
		}
		out, err := payment.FromPayment(p)
		if err != nil {
			return p, nil, true
		}
		return out, []*payment.Payment{p}, true
	default:
		pk, err := btcec.ParsePubKey(t.Hex())
		if err != nil {
			return nil, nil, false
		}
		p := payment.FromPublicKey(pk, net, bk)
		mid, err := payment.FromPayment(p)
		if err != nil {
			return p, nil, true
		}
		out, err := payment.FromPayment(mid)
		if err != nil {
			return mid, []*payment.Payment{p}, true
		}
		return out, []*payment.Payment{mid, p}, true
	}
}

func adrLevelLine(p *payment.Payment) string {
	var b strings.Builder
	fmt.Fprintf(&b, "h=%s wh=%s s=%s ws=%s", hx(p.Hash), hx(p.WitnessHash), hx(p.Script), hx(p.WitnessScript))
	for i, m := range adrPayMethods(p) {
		m := m
		fmt.Fprintf(&b, " a%d=%s", i, guard(func() string {
			s, err := m()
			if err != nil {
				return "err"
			}
			return "ok:" + hxs(s)
		}))
	}
	return b.String()
}

func runAdrNest(t *Toks) string {
	outer, _, ok := adrNestChain(t)
	if !ok {
		return "badcase"
	}
	var parts []string
	for p := outer; p != nil; p = p.Redeem {
		parts = append(parts, adrLevelLine(p))
	}
	return strings.Join(parts, " ;; ")
}

func genAdrNest(r *Rng, n int, w *bufio.Writer) {
	for i := 0; i < n; i++ {
		net := r.Intn(3)
		blind := hx(genKey33(r))
		switch i % 4 {
		case 0, 1:
			nk := 2 + r.Intn(3)
			m := 2 + r.Intn(nk-1)
			fmt.Fprintf(w, "adrnest 0 %d %s %d %d", net, blind, m, nk)
			for j := 0; j < nk; j++ {
				fmt.Fprintf(w, " %s", hx(genKey33(r)))
			}
			fmt.Fprintln(w)
		case 2:
			fmt.Fprintf(w, "adrnest 1 %d %s %s\n", net, blind, hx(r.Bytes(r.Pick(20, 20, 32))))
		default:
			fmt.Fprintf(w, "adrnest 2 %d %s %s\n", net, blind, hx(genKey33(r)))
		}
	}
}

func init() {
	runs["adrnest"] = runAdrNest
	gens["adrnest"] = genAdrNest
}

// K for the foreign-prefix strings: what the decoders say about the bech32 and blech32 spelling under "<hrp>x"
func runAdrForeign(t *Toks) string {
	net := adrNets[t.Int()]
	ty := t.Int()
	payload, key := t.Hex(), t.Hex()
	ver := adrVersionByte(net, ty)
	conv, _ := bech32.ConvertBits(payload, 8, 5, true)
	data := append([]byte{ver}, conv...)
	var x string
	if ver == 0 {
		x, _ = bech32.Encode(net.Bech32+"x", data)
	} else {
		x, _ = bech32.EncodeM(net.Bech32+"x", data)
	}
	bconv, _ := blech32.ConvertBits(append(cp(key), payload...), 8, 5, true)
	enc := blech32.BLECH32
	if ver == 1 {
		enc = blech32.BLECH32M
	}
	y, _ := b32Encode(net.Blech32+"x", append([]byte{ver}, bconv...), enc)
	return adrDecLine(x) + " ;; " + adrDecLine(y)
}

func init() { runs["adrforeign"] = runAdrForeign }

// adrhyb: hand-built confidential base58 strings for every (outer network, inner network, p2pkh|p2sh):
// outer confidential version byte of one network, inner address prefix of another (or the same, which is
// the valid control); emitted as adrdec lines, so the model decides accept/reject and the adrdec oracle
// converts whatever is recognised
func genAdrHyb(r *Rng, n int, w *bufio.Writer) {
	for i := 0; i < n; i++ {
		outer, inner, sh := adrNets[i%3], adrNets[(i/3)%3], (i/9)%2 == 1
		p := inner.PubKeyHash
		if sh {
			p = inner.ScriptHash
		}
		key := genKey33(r)
		if r.Chance(25) {
			key = r.Bytes(33)
		}
		d := append(append([]byte{p}, key...), r.Bytes(20)...)
		fmt.Fprintf(w, "adrdec %s\n", hxs(base58.CheckEncode(d, outer.Confidential)))
	}
}

func init() { gens["adrhyb"] = genAdrHyb }
