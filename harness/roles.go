package main

// C11 — PSET v2 role operations (family "hist").
//
// A case line is an operation history over an abstract vocabulary (small integers and
// script names); this file materialises the vocabulary into real keys, scripts, previous
// transactions, signatures and blinding arguments (all built locally and deterministically),
// runs the history on the real psetv2 code and prints, after the creator and after every
// step, the outcome class and an abstract projection of the real packet. The Coq model
// (coq/Model/Roles.v, driver ocaml/drv_roles.ml) must predict that line token for token.
//
//	hist <nin> {inarg} <nout> {outarg} <fallback|n> <nops> {op}
//	inarg  := <txcls> <t> <idx> <seq> <height> <time>
//	outarg := <acls> <amount> <script> <bk> <bidx>
//
// see the op table in histOp.

import (
	"crypto/sha256"
	"encoding/hex"
	"fmt"
	"strconv"
	"strings"

	"github.com/btcsuite/btcd/btcec/v2"
	"github.com/btcsuite/btcd/btcec/v2/ecdsa"
	"github.com/btcsuite/btcd/btcec/v2/schnorr"
	"github.com/btcsuite/btcd/btcutil"
	"github.com/btcsuite/btcd/txscript"
	"github.com/vulpemventures/go-elements/elementsutil"
	"github.com/vulpemventures/go-elements/network"
	"github.com/vulpemventures/go-elements/payment"
	"github.com/vulpemventures/go-elements/psetv2"
	"github.com/vulpemventures/go-elements/taproot"
	"github.com/vulpemventures/go-elements/transaction"
)

// ---------------------------------------------------------------- vocabulary

type rolesVocab struct {
	priv      [3]*btcec.PrivateKey
	pub       [3][]byte // compressed
	xonly     [3][]byte
	scriptOf  map[string][]byte
	nameOf    map[string]string
	prevTx    map[int]*transaction.Transaction
	txidHex   map[int]string // display order
	tOfHash   map[string]int // internal byte order hex -> t
	leaves    [3]psetv2.TapLeafScript
	leafHash  [3][]byte
	leafOf    map[string]int
	addrU     string
	addrC     string
	assetHex  string
	sig       map[string][]byte
	prevKinds []string
}

var rv *rolesVocab

const nPrevTx = 6

func h256(s string) []byte { h := sha256.Sum256([]byte(s)); return h[:] }

func vocab() *rolesVocab {
	if rv != nil {
		return rv
	}
	v := &rolesVocab{scriptOf: map[string][]byte{}, nameOf: map[string]string{}, prevTx: map[int]*transaction.Transaction{},
		txidHex: map[int]string{}, tOfHash: map[string]int{}, leafOf: map[string]int{}, sig: map[string][]byte{}}
	for k := 0; k < 3; k++ {
		p, pub := btcec.PrivKeyFromBytes(h256(fmt.Sprintf("c11-key-%d", k)))
		v.priv[k] = p
		v.pub[k] = pub.SerializeCompressed()
		v.xonly[k] = schnorr.SerializePubKey(pub)
	}
	// taproot tree with two leaves
	mkLeaf := func(k int) taproot.TapElementsLeaf {
		s, _ := txscript.NewScriptBuilder().AddData(v.xonly[k]).AddOp(txscript.OP_CHECKSIG).Script()
		return taproot.NewBaseTapElementsLeaf(s)
	}
	tree := taproot.AssembleTaprootScriptTree(mkLeaf(0), mkLeaf(1))
	ik, _ := btcec.ParsePubKey(v.pub[2])
	for l := 0; l < 2; l++ {
		v.leaves[l] = psetv2.NewTapLeafScript(tree.LeafMerkleProofs[l], ik)
	}
	v.leaves[2] = psetv2.TapLeafScript{TapElementsLeaf: taproot.NewBaseTapElementsLeaf([]byte{}), ControlBlock: v.leaves[0].ControlBlock}
	for l := 0; l < 3; l++ {
		h := v.leaves[l].TapHash()
		v.leafHash[l] = append([]byte{}, h[:]...)
		v.leafOf[hex.EncodeToString(h[:])] = l
	}
	root := tree.RootNode.TapHash()
	outKey := taproot.ComputeTaprootOutputKey(ik, root[:])
	// base scripts
	base := []string{}
	add := func(name string, s []byte) {
		v.scriptOf[name] = s
		v.nameOf[hex.EncodeToString(s)] = name
	}
	for k := 0; k < 3; k++ {
		h := btcutil.Hash160(v.pub[k])
		s, _ := txscript.NewScriptBuilder().AddOp(txscript.OP_DUP).AddOp(txscript.OP_HASH160).AddData(h).AddOp(txscript.OP_EQUALVERIFY).AddOp(txscript.OP_CHECKSIG).Script()
		add(fmt.Sprintf("pkh%d", k), s)
		w, _ := txscript.NewScriptBuilder().AddOp(txscript.OP_0).AddData(h).Script()
		add(fmt.Sprintf("wpkh%d", k), w)
		base = append(base, fmt.Sprintf("pkh%d", k), fmt.Sprintf("wpkh%d", k))
	}
	for m := 1; m <= 2; m++ {
		s, _ := txscript.NewScriptBuilder().AddInt64(int64(m)).AddData(v.pub[0]).AddData(v.pub[1]).AddInt64(2).AddOp(txscript.OP_CHECKMULTISIG).Script()
		add(fmt.Sprintf("ms%d", m), s)
		base = append(base, fmt.Sprintf("ms%d", m))
	}
	tr, _ := txscript.NewScriptBuilder().AddOp(txscript.OP_1).AddData(schnorr.SerializePubKey(outKey)).Script()
	add("tr", tr)
	add("junk", []byte{0x02, 0x01})
	base = append(base, "tr", "junk")
	v.scriptOf["e"] = []byte{}
	mkSh := func(inner []byte) []byte {
		s, _ := txscript.NewScriptBuilder().AddOp(txscript.OP_HASH160).AddData(btcutil.Hash160(inner)).AddOp(txscript.OP_EQUAL).Script()
		return s
	}
	mkWsh := func(inner []byte) []byte {
		h := sha256.Sum256(inner)
		s, _ := txscript.NewScriptBuilder().AddOp(txscript.OP_0).AddData(h[:]).Script()
		return s
	}
	lvl1 := []string{}
	for _, b := range append(base, "e") {
		add("sh."+b, mkSh(v.scriptOf[b]))
		add("wsh."+b, mkWsh(v.scriptOf[b]))
		lvl1 = append(lvl1, "sh."+b, "wsh."+b)
	}
	for _, b := range lvl1 {
		add("sh."+b, mkSh(v.scriptOf[b]))
		add("wsh."+b, mkWsh(v.scriptOf[b]))
	}
	// previous transactions: every one has the same output script kinds, differing in locktime
	v.prevKinds = []string{"wpkh0", "pkh0", "sh.wpkh0", "wsh.ms2", "sh.ms1", "tr"}
	v.assetHex = hex.EncodeToString(h256("c11-asset"))
	for t := 0; t < nPrevTx; t++ {
		tx := v.mkPrevTx(t)
		h := tx.TxHash()
		v.prevTx[t] = tx
		v.txidHex[t] = h.String()
		v.tOfHash[hex.EncodeToString(h[:])] = t
	}
	pk0, _ := btcec.ParsePubKey(v.pub[0])
	bk, _ := btcec.ParsePubKey(v.pub[2])
	v.addrU, _ = payment.FromPublicKey(pk0, &network.Regtest, nil).WitnessPubKeyHash()
	v.addrC, _ = payment.FromPublicKey(pk0, &network.Regtest, bk).ConfidentialWitnessPubKeyHash()
	rv = v
	return v
}

func (v *rolesVocab) assetBytes() []byte {
	b, _ := elementsutil.AssetHashToBytes(v.assetHex)
	return b
}

func (v *rolesVocab) mkPrevTx(t int) *transaction.Transaction {
	tx := transaction.NewTx(2)
	tx.Locktime = uint32(t)
	tx.AddInput(transaction.NewTxInput(h256("c11-funding"), 0))
	val, _ := elementsutil.ValueToBytes(1000)
	for _, k := range v.prevKinds {
		tx.AddOutput(transaction.NewTxOutput(v.assetBytes(), val, v.scriptOf[k]))
	}
	return tx
}

// script token: n (nil), e (empty), or a name
func (v *rolesVocab) script(tok string) []byte {
	if tok == "n" {
		return nil
	}
	s, ok := v.scriptOf[tok]
	if !ok {
		panic("unknown script " + tok)
	}
	return append([]byte{}, s...)
}

// normEmpty: the projection used to compare a packet with its re-parsed self identifies nil and empty
var normEmpty = false

func (v *rolesVocab) scriptName(s []byte) string {
	if s == nil {
		return "n"
	}
	if len(s) == 0 {
		if normEmpty {
			return "n"
		}
		return "e"
	}
	if n, ok := v.nameOf[hex.EncodeToString(s)]; ok {
		return n
	}
	return "?" + hex.EncodeToString(s)
}

// key token: k0 k1 k2 bad
func (v *rolesVocab) key(tok string) []byte {
	switch tok {
	case "k0", "k1", "k2":
		return append([]byte{}, v.pub[int(tok[1]-'0')]...)
	case "bad":
		return []byte{0x02, 0x01, 0x02, 0x03}
	case "-":
		return nil
	}
	panic("unknown key " + tok)
}

func (v *rolesVocab) keyName(k []byte) string {
	for i := 0; i < 3; i++ {
		if hex.EncodeToString(k) == hex.EncodeToString(v.pub[i]) {
			return strconv.Itoa(i)
		}
	}
	if len(k) == 0 {
		return "-"
	}
	return "x"
}

func (v *rolesVocab) derSig(k int, hashType int) []byte {
	key := fmt.Sprintf("%d", k)
	s, ok := v.sig[key]
	if !ok {
		s = ecdsa.Sign(v.priv[k], h256("c11-msg")).Serialize()
		v.sig[key] = s
	}
	return append(append([]byte{}, s...), byte(hashType))
}

// tapSig: a schnorr-signature-shaped blob; a 65-byte one ends in 0x03 (SIGHASH_SINGLE)
func tapSig(n int, b byte) []byte {
	x := fill(n, b)
	if n == 65 {
		x[64] = 0x03
	}
	return x
}

func fill(n int, b byte) []byte {
	x := make([]byte, n)
	for i := range x {
		x[i] = b
	}
	return x
}

func (v *rolesVocab) utxo(scriptTok string, conf bool) *transaction.TxOutput {
	if scriptTok == "nil" {
		return nil
	}
	if conf {
		return &transaction.TxOutput{Asset: append([]byte{0x0a}, fill(32, 0x11)...), Value: append([]byte{0x08}, fill(32, 0x22)...),
			Script: v.script(scriptTok), Nonce: append([]byte{0x02}, fill(32, 0x33)...)}
	}
	val, _ := elementsutil.ValueToBytes(1000)
	return transaction.NewTxOutput(v.assetBytes(), val, v.script(scriptTok))
}

// ---------------------------------------------------------------- creator arguments

type inArgA struct {
	cls, t                 int
	idx, seq, height, time uint32
}
type outArgA struct {
	cls    int
	amount uint64
	script string
	bk     string
	bidx   uint32
}

func readInArg(t *Toks) inArgA {
	return inArgA{cls: t.Int(), t: t.Int(), idx: uint32(t.U64()), seq: uint32(t.U64()), height: uint32(t.U64()), time: uint32(t.U64())}
}
func readOutArg(t *Toks) outArgA {
	return outArgA{cls: t.Int(), amount: t.U64(), script: t.Next(), bk: t.Next(), bidx: uint32(t.U64())}
}

func (v *rolesVocab) inArg(a inArgA) psetv2.InputArgs {
	var txid string
	switch a.cls {
	case 0:
		txid = v.txidHex[a.t]
	case 1:
		txid = ""
	case 2:
		txid = "zz"
	default:
		txid = v.txidHex[a.t][2:] // 31 bytes: the display order drops the last internal byte
	}
	return psetv2.InputArgs{Txid: txid, TxIndex: a.idx, Sequence: a.seq, HeightLock: a.height, TimeLock: a.time}
}

func (v *rolesVocab) outArg(a outArgA) psetv2.OutputArgs {
	var asset string
	switch a.cls {
	case 0:
		asset = v.assetHex
	case 1:
		asset = ""
	case 2:
		asset = "zz"
	default:
		asset = v.assetHex[2:]
	}
	return psetv2.OutputArgs{Asset: asset, Amount: a.amount, Script: v.script(a.script), BlindingKey: v.key(a.bk), BlinderIndex: a.bidx}
}

// ---------------------------------------------------------------- fake blinding oracles

type fakeValidator struct{ surj, basset, rng, bvalue bool }

func (f fakeValidator) VerifyValueRangeProof(a, b, c, d []byte) bool { return f.rng }
func (f fakeValidator) VerifyAssetSurjectionProof(a, b [][]byte, c, d, e []byte) bool {
	return f.surj
}
func (f fakeValidator) VerifyBlindValueProof(v uint64, a, b, c []byte) bool { return f.bvalue }
func (f fakeValidator) VerifyBlindAssetProof(a, b, c []byte) bool           { return f.basset }

type fakeGenerator struct {
	gfail  int
	scalar int
}

func scalarBytes(id int) []byte { return append(fill(31, 0x5c), byte(id)) }
func (g fakeGenerator) ComputeAndAddToScalarOffset(s []byte, v uint64, a, b []byte) ([]byte, error) {
	if g.gfail == 1 {
		return nil, fmt.Errorf("scalar oracle says no")
	}
	return scalarBytes(g.scalar), nil
}
func (g fakeGenerator) SubtractScalars(a, b []byte) ([]byte, error) {
	return scalarBytes(g.scalar), nil
}
func (g fakeGenerator) LastValueCommitment(v uint64, a, b []byte) ([]byte, error) {
	if g.gfail == 2 {
		return nil, fmt.Errorf("commitment oracle says no")
	}
	return append([]byte{0x08}, fill(32, 0x44)...), nil
}
func (g fakeGenerator) LastBlindValueProof(v uint64, a, b, c []byte) ([]byte, error) {
	return []byte{4, 5}, nil
}
func (g fakeGenerator) LastValueRangeProof(v uint64, a, b, c, d, e, f []byte) ([]byte, error) {
	if g.gfail == 3 {
		return nil, fmt.Errorf("range proof oracle says no")
	}
	return []byte{1, 2, 3}, nil
}

// ---------------------------------------------------------------- operations

type histOp struct {
	name string
	run  func(p *psetv2.Pset) error
}

// multi-part operations of the property statement
var multiPart = map[string]bool{"addins": true, "addouts": true, "issue": true, "reissue": true, "sign": true,
	"tapkeysig": true, "tapscriptsig": true, "blind": true, "finalizeall": true}

func upd(p *psetv2.Pset) (*psetv2.Updater, error) { return psetv2.NewUpdater(p) }

func (v *rolesVocab) readOp(t *Toks) histOp {
	name := t.Next()
	// NewUpdater sanity-checks the packet; the roles are used here as the code's own
	// callers (tests, wallet code) use them: one Updater/Signer wrapping the packet. To keep
	// every method reachable on every state the wrapper is built directly.
	U := func(p *psetv2.Pset) *psetv2.Updater { return &psetv2.Updater{Pset: p} }
	switch name {
	case "setmod":
		f := t.Next()
		return histOp{name, func(p *psetv2.Pset) error {
			if f == "nil" {
				p.Global.TxModifiable = nil
				return nil
			}
			n, _ := strconv.Atoi(f)
			bs := psetv2.NewBitSet()
			for i := 0; i < 8; i++ {
				if n&(1<<i) != 0 {
					bs.Set(i)
				}
			}
			p.Global.TxModifiable = bs
			return nil
		}}
	case "addins":
		n := t.Int()
		var l []psetv2.InputArgs
		for i := 0; i < n; i++ {
			l = append(l, v.inArg(readInArg(t)))
		}
		return histOp{name, func(p *psetv2.Pset) error { return U(p).AddInputs(l) }}
	case "addouts":
		n := t.Int()
		var l []psetv2.OutputArgs
		for i := 0; i < n; i++ {
			l = append(l, v.outArg(readOutArg(t)))
		}
		return histOp{name, func(p *psetv2.Pset) error { return U(p).AddOutputs(l) }}
	case "nwutxo":
		i, tt := t.Int(), t.Int()
		return histOp{name, func(p *psetv2.Pset) error { return U(p).AddInNonWitnessUtxo(i, v.mkPrevTx(tt)) }}
	case "wutxo":
		i, s, c := t.Int(), t.Next(), t.Int()
		return histOp{name, func(p *psetv2.Pset) error { return U(p).AddInWitnessUtxo(i, v.utxo(s, c == 1)) }}
	case "redeem":
		i, s := t.Int(), t.Next()
		return histOp{name, func(p *psetv2.Pset) error { return U(p).AddInRedeemScript(i, v.script(s)) }}
	case "wscript":
		i, s := t.Int(), t.Next()
		return histOp{name, func(p *psetv2.Pset) error { return U(p).AddInWitnessScript(i, v.script(s)) }}
	case "bip32", "obip32":
		i, k, pl := t.Int(), t.Next(), t.Int()
		d := psetv2.DerivationPathWithPubKey{PubKey: v.key(k), MasterKeyFingerprint: 0x01020304}
		for j := 0; j < pl; j++ {
			d.Bip32Path = append(d.Bip32Path, uint32(44+j))
		}
		if name == "bip32" {
			return histOp{name, func(p *psetv2.Pset) error { return U(p).AddInBip32Derivation(i, d) }}
		}
		return histOp{name, func(p *psetv2.Pset) error { return U(p).AddOutBip32Derivation(i, d) }}
	case "sighash":
		i, n := t.Int(), t.U64()
		return histOp{name, func(p *psetv2.Pset) error { return U(p).AddInSighashType(i, txscript.SigHashType(n)) }}
	case "utxorp":
		i, c := t.Int(), t.Int()
		var proof []byte
		if c == 1 {
			proof = []byte{0xaa, 0xbb}
		}
		return histOp{name, func(p *psetv2.Pset) error { return U(p).AddInUtxoRangeProof(i, proof) }}
	case "expasset":
		i, okLen, pr := t.Int(), t.Int(), t.Int()
		asset := fill(32, 0x66)
		if okLen == 0 {
			asset = fill(31, 0x66)
		}
		var proof []byte
		if pr == 1 {
			proof = []byte{0xa1}
		}
		return histOp{name, func(p *psetv2.Pset) error { return U(p).AddInExplicitAsset(i, asset, proof) }}
	case "expvalue":
		i, val, pr := t.Int(), t.U64(), t.Int()
		var proof []byte
		if pr == 1 {
			proof = []byte{0xa2}
		}
		return histOp{name, func(p *psetv2.Pset) error { return U(p).AddInExplicitValue(i, val, proof) }}
	case "issue":
		i, prec, ccls, aamt, tamt, aaddr, taddr, bl := t.Int(), t.Int(), t.Int(), t.U64(), t.U64(), t.Next(), t.Next(), t.Int()
		arg := psetv2.AddInIssuanceArgs{Precision: uint(prec), AssetAmount: aamt, TokenAmount: tamt,
			AssetAddress: v.addr(aaddr), TokenAddress: v.addr(taddr), BlindedIssuance: bl == 1}
		if ccls == 1 {
			arg.Contract = &transaction.IssuanceContract{Name: "c11", Ticker: "CXI", Version: 0, Precision: uint(prec)}
		} else if ccls == 2 {
			arg.Contract = &transaction.IssuanceContract{Name: "c11", Ticker: "CXI", Version: 0, Precision: uint(prec) + 1}
		}
		return histOp{name, func(p *psetv2.Pset) error { return U(p).AddInIssuance(i, arg) }}
	case "reissue":
		i, bcls, ecls, aamt, aaddr, tamt, taddr := t.Int(), t.Int(), t.Int(), t.U64(), t.Next(), t.U64(), t.Next()
		arg := psetv2.AddInReissuanceArgs{AssetAmount: aamt, TokenAmount: tamt, AssetAddress: v.addr(aaddr), TokenAddress: v.addr(taddr)}
		switch bcls {
		case 0:
			arg.TokenPrevOutBlinder = fill(32, 0x77)
		case 1:
			arg.TokenPrevOutBlinder = fill(31, 0x77)
		default:
			arg.TokenPrevOutBlinder = make([]byte, 32)
		}
		if ecls == 0 {
			arg.Entropy = hex.EncodeToString(fill(32, 0x88))
		} else {
			arg.Entropy = "abcd"
		}
		return histOp{name, func(p *psetv2.Pset) error { return U(p).AddInReissuance(i, arg) }}
	case "tapik":
		i, n := t.Int(), t.Int()
		return histOp{name, func(p *psetv2.Pset) error { return U(p).AddInTapInternalKey(i, fill(n, 0x99)) }}
	case "tapmr":
		i, n := t.Int(), t.Int()
		return histOp{name, func(p *psetv2.Pset) error { return U(p).AddInTapMerkleRoot(i, fill(n, 0x9a)) }}
	case "tapleaf":
		i, l := t.Int(), t.Int()
		return histOp{name, func(p *psetv2.Pset) error { return U(p).AddInTapLeafScript(i, v.leaves[l]) }}
	case "tapbip32":
		i, k, nh, hl, pl := t.Int(), t.Next(), t.Int(), t.Int(), t.Int()
		d := psetv2.TapDerivationPathWithPubKey{}
		d.PubKey = v.key(k)
		d.MasterKeyFingerprint = 0x0a0b0c0d
		for j := 0; j < pl; j++ {
			d.Bip32Path = append(d.Bip32Path, uint32(86+j))
		}
		for j := 0; j < nh; j++ {
			d.LeafHashes = append(d.LeafHashes, fill(hl, byte(0xb0+j)))
		}
		return histOp{name, func(p *psetv2.Pset) error { return U(p).AddInTapBip32Derivation(i, d) }}
	case "oredeem":
		i, s := t.Int(), t.Next()
		return histOp{name, func(p *psetv2.Pset) error { return U(p).AddOutRedeemScript(i, v.script(s)) }}
	case "owscript":
		i, s := t.Int(), t.Next()
		return histOp{name, func(p *psetv2.Pset) error { return U(p).AddOutWitnessScript(i, v.script(s)) }}
	case "sign":
		i, sc, ht, k, rs, ws := t.Int(), t.Int(), t.Int(), t.Next(), t.Next(), t.Next()
		return histOp{name, func(p *psetv2.Pset) error {
			var sig []byte
			if sc == 0 {
				kk := 0
				if k != "bad" {
					kk = int(k[1] - '0')
				}
				sig = v.derSig(kk, ht)
			} else {
				sig = []byte{0x30, 0x01, byte(ht)}
			}
			return U(p).SignInput(i, sig, v.key(k), v.script(rs), v.script(ws))
		}}
	case "tapkeysig":
		i, n := t.Int(), t.Int()
		return histOp{name, func(p *psetv2.Pset) error { return U(p).SignTaprootInputKeySig(i, tapSig(n, 0xc1)) }}
	case "tapscriptsig":
		i, pkl, sl, leaf, lhok, pkid := t.Int(), t.Int(), t.Int(), t.Int(), t.Int(), t.Int()
		s := psetv2.TapScriptSig{}
		s.PubKey = append([]byte{}, v.xonly[pkid][:pkl]...)
		s.Signature = tapSig(sl, 0xc2)
		s.LeafHash = append([]byte{}, v.leafHash[leaf]...)
		if lhok == 0 {
			s.LeafHash = s.LeafHash[:31]
		}
		return histOp{name, func(p *psetv2.Pset) error { return U(p).SignTaprootInputTapscriptSig(i, s) }}
	case "blind":
		last := t.Int() == 1
		var owned []psetv2.OwnedInput
		for n := t.Int(); n > 0; n-- {
			owned = append(owned, psetv2.OwnedInput{Index: uint32(t.U64()), Value: 1000, Asset: v.assetHex, ValueBlinder: fill(32, 0xd1), AssetBlinder: fill(32, 0xd2)})
		}
		var iss []psetv2.InputIssuanceBlindingArgs
		for n := t.Int(); n > 0; n-- {
			a := psetv2.InputIssuanceBlindingArgs{Index: uint32(t.U64())}
			icls := t.Int() // 0: nothing, 1: all six fields well formed, 2: as 1 with a 5-byte value commitment
			if icls >= 1 {
				a.IssuanceValueCommitment = append([]byte{0x08}, fill(32, 0xe1)...)
				a.IssuanceTokenCommitment = append([]byte{0x08}, fill(32, 0xe2)...)
				a.IssuanceValueRangeProof = []byte{0xe3}
				a.IssuanceTokenRangeProof = []byte{0xe4}
				a.IssuanceValueBlindProof = []byte{0xe5}
				a.IssuanceTokenBlindProof = []byte{0xe6}
				a.IssuanceValueBlinder = fill(32, 0xe7)
				a.IssuanceTokenBlinder = fill(32, 0xe8)
				if icls == 2 {
					a.IssuanceValueCommitment = fill(5, 0xee)
				}
			}
			iss = append(iss, a)
		}
		var outs []psetv2.OutputBlindingArgs
		for n := t.Int(); n > 0; n-- {
			a := psetv2.OutputBlindingArgs{Index: uint32(t.U64())}
			cls := t.Int()
			a.Nonce = fill(32, 0xf1)
			a.NonceCommitment = append([]byte{}, v.pub[1]...)
			a.ValueCommitment = append([]byte{0x08}, fill(32, 0xf2)...)
			a.AssetCommitment = append([]byte{0x0a}, fill(32, 0xf3)...)
			a.ValueRangeProof = []byte{0xf4}
			a.AssetSurjectionProof = []byte{0xf5}
			a.ValueBlindProof = []byte{0xf6}
			a.AssetBlindProof = []byte{0xf7}
			a.ValueBlinder = fill(32, 0xf8)
			a.AssetBlinder = fill(32, 0xf9)
			if cls == 1 {
				a.Nonce = nil
			} else if cls == 2 {
				a.ValueCommitment = nil
			} else if cls == 3 {
				// 33 bytes that are not a curve point (x = 2^256-1 is not a field element)
				a.NonceCommitment = append([]byte{0x02}, fill(32, 0xff)...)
			}
			outs = append(outs, a)
		}
		val := fakeValidator{surj: t.Int() == 1, basset: t.Int() == 1, rng: t.Int() == 1, bvalue: t.Int() == 1}
		gen := fakeGenerator{gfail: t.Int(), scalar: t.Int()}
		return histOp{name, func(p *psetv2.Pset) error {
			b, err := psetv2.NewBlinder(p, owned, val, gen)
			if err != nil {
				return err
			}
			if last {
				return b.BlindLast(iss, outs)
			}
			return b.BlindNonLast(iss, outs)
		}}
	case "finalize":
		i := t.Int()
		return histOp{name, func(p *psetv2.Pset) error { return psetv2.Finalize(p, i) }}
	case "maybefinalize":
		i := t.Int()
		return histOp{name, func(p *psetv2.Pset) error { _, err := psetv2.MaybeFinalize(p, i); return err }}
	case "finalizeall":
		return histOp{name, func(p *psetv2.Pset) error { return psetv2.FinalizeAll(p) }}
	case "maybefinalizeall":
		return histOp{name, func(p *psetv2.Pset) error { return psetv2.MaybeFinalizeAll(p) }}
	}
	panic("unknown op " + name)
}

func (v *rolesVocab) addr(tok string) string {
	switch tok {
	case "-":
		return ""
	case "u0":
		return v.addrU
	case "c0":
		return v.addrC
	}
	return "notanaddress"
}

// ---------------------------------------------------------------- projection

func b01(b bool) string {
	if b {
		return "1"
	}
	return "0"
}

func (v *rolesVocab) projInput(in *psetv2.Input) string {
	var f []string
	tid := "?" + hex.EncodeToString(in.PreviousTxid)
	if t, ok := v.tOfHash[hex.EncodeToString(in.PreviousTxid)]; ok {
		tid = strconv.Itoa(t)
	} else if len(in.PreviousTxid) == 31 {
		for t := 0; t < nPrevTx; t++ {
			h := v.prevTx[t].TxHash()
			if hex.EncodeToString(h[:31]) == hex.EncodeToString(in.PreviousTxid) {
				tid = strconv.Itoa(t) + "s"
			}
		}
	}
	f = append(f, fmt.Sprintf("%s:%d", tid, in.PreviousTxIndex), fmt.Sprint(in.Sequence), fmt.Sprint(in.RequiredTimeLocktime), fmt.Sprint(in.RequiredHeightLocktime))
	nwrp := false
	if in.NonWitnessUtxo != nil && int(in.PreviousTxIndex) < len(in.NonWitnessUtxo.Outputs) {
		nwrp = len(in.NonWitnessUtxo.Outputs[in.PreviousTxIndex].RangeProof) > 0
	}
	f = append(f, "nw"+b01(in.NonWitnessUtxo != nil)+b01(nwrp))
	if in.WitnessUtxo == nil {
		f = append(f, "w-")
	} else {
		f = append(f, "w"+v.scriptName(in.WitnessUtxo.Script)+"/"+b01(in.WitnessUtxo.IsConfidential()))
	}
	ps := "ps"
	for _, s := range in.PartialSigs {
		ps += fmt.Sprintf("_%sh%d", v.keyName(s.PubKey), s.Signature[len(s.Signature)-1])
	}
	f = append(f, ps, fmt.Sprintf("sh%d", uint32(in.SigHashType)), "r"+v.scriptName(in.RedeemScript), "ws"+v.scriptName(in.WitnessScript))
	bp := "b"
	for _, d := range in.Bip32Derivation {
		bp += "_" + v.keyName(d.PubKey) + b01(len(d.Bip32Path) > 0)
	}
	f = append(f, bp, "f"+b01(len(in.FinalScriptSig) > 0)+b01(len(in.FinalScriptWitness) > 0))
	bi := "n"
	if in.BlindedIssuance != nil {
		bi = b01(*in.BlindedIssuance)
	}
	f = append(f, fmt.Sprintf("iss%d.%d.%s.%s.%s.%s", in.IssuanceValue, in.IssuanceInflationKeys, b01(len(in.IssuanceAssetEntropy) > 0),
		b01(len(in.IssuanceBlindingNonce) > 0), bi,
		b01(len(in.IssuanceValueCommitment) > 0)+b01(len(in.IssuanceValueRangeproof) > 0)+b01(len(in.IssuanceBlindValueProof) > 0)+
			b01(len(in.IssuanceInflationKeysCommitment) > 0)+b01(len(in.IssuanceInflationKeysRangeproof) > 0)+b01(len(in.IssuanceBlindInflationKeysProof) > 0)))
	f = append(f, "urp"+b01(len(in.UtxoRangeProof) > 0))
	f = append(f, fmt.Sprintf("ev%d.%s.%d.%s", in.ExplicitValue, b01(len(in.ValueProof) > 0), len(in.ExplicitAsset), b01(len(in.AssetProof) > 0)))
	f = append(f, fmt.Sprintf("tk%d", len(in.TapKeySig)))
	ts := "ts"
	for _, s := range in.TapScriptSig {
		pk := "x"
		for k := 0; k < 3; k++ {
			if len(s.PubKey) > 0 && hex.EncodeToString(s.PubKey) == hex.EncodeToString(v.xonly[k][:len(s.PubKey)]) {
				pk = strconv.Itoa(k)
			}
		}
		leaf := "x"
		for l := 0; l < 3; l++ {
			if len(s.LeafHash) > 0 && hex.EncodeToString(s.LeafHash) == hex.EncodeToString(v.leafHash[l][:len(s.LeafHash)]) {
				leaf = strconv.Itoa(l)
			}
		}
		ts += fmt.Sprintf("_%s.%d.%d.%s.%d", pk, len(s.PubKey), len(s.Signature), leaf, len(s.LeafHash))
	}
	f = append(f, ts)
	tl := "tl"
	for i := range in.TapLeafScript {
		h := in.TapLeafScript[i].TapHash()
		if l, ok := v.leafOf[hex.EncodeToString(h[:])]; ok {
			tl += "_" + strconv.Itoa(l)
		} else {
			tl += "_x"
		}
	}
	f = append(f, tl)
	tb := "tb"
	for _, d := range in.TapBip32Derivation {
		hl := 0
		if len(d.LeafHashes) > 0 {
			hl = len(d.LeafHashes[0])
		}
		tb += fmt.Sprintf("_%s.%d.%d.%s", v.keyName(d.PubKey), len(d.LeafHashes), hl, b01(len(d.Bip32Path) > 0))
	}
	f = append(f, tb, fmt.Sprintf("ik%d", len(in.TapInternalKey)), fmt.Sprintf("mr%d", len(in.TapMerkleRoot)))
	return strings.Join(f, ",")
}

func (v *rolesVocab) projOutput(o *psetv2.Output) string {
	var f []string
	f = append(f, fmt.Sprint(o.Value), fmt.Sprintf("a%d", len(o.Asset)), v.scriptName(o.Script))
	bk := "0"
	if len(o.BlindingPubkey) > 0 {
		bk = "2"
		if _, err := btcec.ParsePubKey(o.BlindingPubkey); err == nil {
			bk = "1"
		}
	}
	f = append(f, "bk"+bk, fmt.Sprintf("bi%d", o.BlinderIndex))
	f = append(f, "c"+b01(len(o.ValueCommitment) > 0)+b01(len(o.AssetCommitment) > 0)+b01(len(o.ValueRangeproof) > 0)+b01(len(o.AssetSurjectionProof) > 0)+
		b01(len(o.EcdhPubkey) > 0)+b01(len(o.BlindValueProof) > 0)+b01(len(o.BlindAssetProof) > 0))
	f = append(f, "r"+v.scriptName(o.RedeemScript), "ws"+v.scriptName(o.WitnessScript))
	bp := "b"
	for _, d := range o.Bip32Derivation {
		bp += "_" + v.keyName(d.PubKey) + b01(len(d.Bip32Path) > 0)
	}
	f = append(f, bp)
	return strings.Join(f, ",")
}

// roundTrip: same / diff / fail / sererr. "same" = ToBase64, parse, ToBase64 gives the same string
// AND the parsed packet has the same projection (nil and empty identified); "diff" otherwise.
func roundTrip(p *psetv2.Pset) (string, string) {
	b64, err := p.ToBase64()
	if err != nil {
		return "sererr", err.Error()
	}
	q, err := psetv2.NewPsetFromBase64(b64)
	if err != nil {
		return "fail", err.Error()
	}
	again, err := q.ToBase64()
	if err != nil || again != b64 {
		return "diff", "bytes"
	}
	v := vocab()
	normEmpty = true
	a, b := v.projCore(p), v.projCore(q)
	normEmpty = false
	if a != b {
		return "diff", diffDetail(a+"|", b+"|")
	}
	return "same", ""
}

func (v *rolesVocab) projCore(p *psetv2.Pset) string {
	flags := "n"
	if p.Global.TxModifiable != nil {
		flags = fmt.Sprint(p.Global.TxModifiable.Uint8())
	}
	fb := "n"
	if p.Global.FallbackLocktime != nil {
		fb = fmt.Sprint(*p.Global.FallbackLocktime)
	}
	sc := "sc"
	for _, s := range p.Global.Scalars {
		if len(s) == 32 {
			sc += fmt.Sprintf("_%d", s[31])
		} else {
			sc += "_x"
		}
	}
	var ins, outs []string
	for i := range p.Inputs {
		ins = append(ins, v.projInput(&p.Inputs[i]))
	}
	for i := range p.Outputs {
		outs = append(outs, v.projOutput(&p.Outputs[i]))
	}
	return fmt.Sprintf("g:%d.%d.%s.%s.%s.lt%d|%s|%s", p.Global.InputCount, p.Global.OutputCount, flags, fb, sc, p.Locktime(),
		strings.Join(ins, ";"), strings.Join(outs, ";"))
}

func (v *rolesVocab) projPset(p *psetv2.Pset) string {
	rt, _ := roundTrip(p)
	return v.projCore(p) + "|rt:" + rt
}

// ---------------------------------------------------------------- running a history

type stepObs func(k int, op string, outcome string, before *snapshot, p *psetv2.Pset)

type snapshot struct {
	b64       string
	nin, nout int
	inMod     bool
	outMod    bool
	rt        string
	finalized map[int]string // input index -> single-input serialization
	proj      string
	hasPsigs  bool   // some input carries a partial signature
	locktime  uint32 // Locktime() before the step
}

func runStep(f func(p *psetv2.Pset) error, p *psetv2.Pset) (out string) {
	defer func() {
		if e := recover(); e != nil {
			out = "panic"
		}
	}()
	if err := f(p); err != nil {
		return "err"
	}
	return "ok"
}

// execHist runs the creator and the operations; after the creator (k = 0) and each
// operation (k >= 1) it calls obs. Returns the creator's outcome class.
func execHist(t *Toks, pre func(p *psetv2.Pset) *snapshot, obs stepObs) string {
	v := vocab()
	var ins []psetv2.InputArgs
	var outs []psetv2.OutputArgs
	for n := t.Int(); n > 0; n-- {
		ins = append(ins, v.inArg(readInArg(t)))
	}
	for n := t.Int(); n > 0; n-- {
		outs = append(outs, v.outArg(readOutArg(t)))
	}
	var fb *uint32
	if x := t.Next(); x != "n" {
		n, _ := strconv.ParseUint(x, 10, 32)
		u := uint32(n)
		fb = &u
	}
	nops := t.Int()
	var ops []histOp
	for i := 0; i < nops; i++ {
		ops = append(ops, v.readOp(t))
	}
	var p *psetv2.Pset
	res := func() (out string) {
		defer func() {
			if e := recover(); e != nil {
				out = "panic"
			}
		}()
		var err error
		p, err = psetv2.New(ins, outs, fb)
		if err != nil {
			return "err"
		}
		return "ok"
	}()
	if res != "ok" {
		return res
	}
	obs(0, "new", "ok", nil, p)
	for k, op := range ops {
		var snap *snapshot
		if pre != nil {
			snap = pre(p)
		}
		outc := runStep(op.run, p)
		obs(k+1, op.name, outc, snap, p)
	}
	return "ok"
}

func runHist(t *Toks) string {
	v := vocab()
	var b strings.Builder
	res := execHist(t, nil, func(k int, op, outcome string, _ *snapshot, p *psetv2.Pset) {
		fmt.Fprintf(&b, " s%d=%s:%s|%s", k, op, outcome, v.projPset(p))
	})
	return "new=" + res + b.String()
}
