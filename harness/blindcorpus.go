package main

// hand-written boundary scenarios for C05 (written to corpus/bv2.txt with `impl gen bv2corpus 0 0`)

import "bufio"

func init() { gens["bv2corpus"] = genBV2Corpus }

func genBV2Corpus(r *Rng, n int, w *bufio.Writer) {
	shapes := []*bvShape{
		// single explicit
		&bvShape{Seed: 1,
			Ins:     []bvIn{{Conf: false, Asset: 0, Value: 1000}},
			Outs:    []bvOut{{Asset: 0, Value: 400, Blind: true}, {Asset: 0, Value: 500, Blind: true}, {Asset: 0, Value: 100, Fee: true}},
			Parties: []bvParty{{Ctor: 0, Own: []uint32{0}, Outs: []uint32{0, 1}}}},
		// single conf keys
		&bvShape{Seed: 2,
			Ins:     []bvIn{{Conf: true, Asset: 0, Value: 1000}, {Conf: true, Asset: 1, Value: 50}},
			Outs:    []bvOut{{Asset: 0, Value: 900, Blind: true}, {Asset: 1, Value: 50, Blind: true, BlinderIdx: 1}, {Asset: 0, Value: 100, Fee: true}},
			Parties: []bvParty{{Ctor: 1, Own: []uint32{0, 1}, Outs: []uint32{0, 1}}}},
		// two parties explicit
		&bvShape{Seed: 3,
			Ins:     []bvIn{{Conf: false, Asset: 0, Value: 1000}, {Conf: false, Asset: 1, Value: 50}},
			Outs:    []bvOut{{Asset: 0, Value: 900, Blind: true}, {Asset: 1, Value: 50, Blind: true, BlinderIdx: 1}, {Asset: 0, Value: 100, Fee: true}},
			Parties: []bvParty{{Ctor: 0, Own: []uint32{0}, Outs: []uint32{0}}, {Ctor: 0, Own: []uint32{1}, Outs: []uint32{1}}}},
		// two parties, non-last conf input
		&bvShape{Seed: 4,
			Ins:     []bvIn{{Conf: true, Asset: 0, Value: 1000}, {Conf: false, Asset: 1, Value: 50}},
			Outs:    []bvOut{{Asset: 0, Value: 900, Blind: true}, {Asset: 1, Value: 50, Blind: true, BlinderIdx: 1}, {Asset: 0, Value: 100, Fee: true}},
			Parties: []bvParty{{Ctor: 0, Own: []uint32{0}, Outs: []uint32{0}}, {Ctor: 0, Own: []uint32{1}, Outs: []uint32{1}}}},
		// two parties, last conf input
		&bvShape{Seed: 5,
			Ins:     []bvIn{{Conf: false, Asset: 0, Value: 1000}, {Conf: true, Asset: 1, Value: 50}},
			Outs:    []bvOut{{Asset: 0, Value: 900, Blind: true}, {Asset: 1, Value: 50, Blind: true, BlinderIdx: 1}, {Asset: 0, Value: 100, Fee: true}},
			Parties: []bvParty{{Ctor: 0, Own: []uint32{0}, Outs: []uint32{0}}, {Ctor: 0, Own: []uint32{1}, Outs: []uint32{1}}}},
		// two parties explicit, own all
		&bvShape{Seed: 6,
			Ins:     []bvIn{{Conf: false, Asset: 0, Value: 1000}, {Conf: false, Asset: 1, Value: 50}},
			Outs:    []bvOut{{Asset: 0, Value: 900, Blind: true}, {Asset: 1, Value: 50, Blind: true, BlinderIdx: 1}, {Asset: 0, Value: 100, Fee: true}},
			Parties: []bvParty{{Ctor: 0, Own: []uint32{0, 1}, Outs: []uint32{0}}, {Ctor: 0, Own: []uint32{0, 1}, Outs: []uint32{1}}}},
		// issuance on input 0 of 2 (unblinded)
		&bvShape{Seed: 7,
			Ins: []bvIn{{Conf: false, Asset: 0, Value: 1000, Iss: 1, IssValue: 70, IssToken: 1, IssBlinded: false}, {Conf: true, Asset: 1, Value: 50}},
			Outs: []bvOut{{Asset: 0, Value: 900, Blind: true}, {Asset: 1, Value: 50, Blind: true, BlinderIdx: 1},
				{Asset: 100, Value: 70, Blind: true}, {Asset: 200, Value: 1, Blind: true}, {Asset: 0, Value: 100, Fee: true}},
			Parties: []bvParty{{Ctor: 0, Own: []uint32{0, 1}, Outs: []uint32{0, 1, 2, 3}}}},
		// blinded issuance on last input
		&bvShape{Seed: 8,
			Ins: []bvIn{{Conf: true, Asset: 1, Value: 50}, {Conf: false, Asset: 0, Value: 1000, Iss: 1, IssValue: 70, IssToken: 1, IssBlinded: true}},
			Outs: []bvOut{{Asset: 0, Value: 900, Blind: true}, {Asset: 1, Value: 50, Blind: true, BlinderIdx: 1},
				{Asset: 101, Value: 70, Blind: true}, {Asset: 201, Value: 1, Blind: true}, {Asset: 0, Value: 100, Fee: true}},
			Parties: []bvParty{{Ctor: 0, Own: []uint32{0, 1}, Outs: []uint32{0, 1, 2, 3}, Iss: []uint32{1}}}},
		// blinded issuance on input 0 of 2
		&bvShape{Seed: 9,
			Ins: []bvIn{{Conf: false, Asset: 0, Value: 1000, Iss: 1, IssValue: 70, IssToken: 1, IssBlinded: true}, {Conf: true, Asset: 1, Value: 50}},
			Outs: []bvOut{{Asset: 0, Value: 900, Blind: true}, {Asset: 1, Value: 50, Blind: true, BlinderIdx: 1},
				{Asset: 100, Value: 70, Blind: true}, {Asset: 200, Value: 1, Blind: true}, {Asset: 0, Value: 100, Fee: true}},
			Parties: []bvParty{{Ctor: 0, Own: []uint32{0, 1}, Outs: []uint32{0, 1, 2, 3}, Iss: []uint32{0}}}},
		// reissuance, single input
		&bvShape{Seed: 10,
			Ins: []bvIn{{Conf: false, Asset: 0, Value: 1000}, {Conf: true, Asset: 201, Value: 1, Iss: 2, IssValue: 33}},
			Outs: []bvOut{{Asset: 0, Value: 900, Blind: true}, {Asset: 101, Value: 33, Blind: true, BlinderIdx: 1},
				{Asset: 201, Value: 1, Blind: true, BlinderIdx: 1}, {Asset: 0, Value: 100, Fee: true}},
			Parties: []bvParty{{Ctor: 0, Own: []uint32{0, 1}, Outs: []uint32{0, 1, 2}, Iss: []uint32{1}}}},
		// issuance without token, unblinded, last input
		&bvShape{Seed: 11,
			Ins:     []bvIn{{Conf: true, Asset: 0, Value: 1000, Iss: 1, IssValue: 70, IssToken: 0, IssBlinded: false}},
			Outs:    []bvOut{{Asset: 0, Value: 900, Blind: true}, {Asset: 100, Value: 70, Blind: true}, {Asset: 0, Value: 100, Fee: true}},
			Parties: []bvParty{{Ctor: 0, Own: []uint32{0}, Outs: []uint32{0, 1}}}},
		// guard: a party asks to blind an output whose blinder index belongs to the other party
		&bvShape{Seed: 12,
			Ins:     []bvIn{{Conf: false, Asset: 0, Value: 1000}, {Conf: false, Asset: 0, Value: 50}},
			Outs:    []bvOut{{Asset: 0, Value: 900, Blind: true}, {Asset: 0, Value: 50, Blind: true, BlinderIdx: 1}, {Asset: 0, Value: 100, Fee: true}},
			Parties: []bvParty{{Ctor: 0, Own: []uint32{0}, Outs: []uint32{0, 1}}, {Ctor: 0, Own: []uint32{1}, Outs: []uint32{1}}}},
		// guard: output index out of range
		&bvShape{Seed: 13,
			Ins:     []bvIn{{Conf: true, Asset: 0, Value: 1000}},
			Outs:    []bvOut{{Asset: 0, Value: 900, Blind: true}, {Asset: 0, Value: 100, Fee: true}},
			Parties: []bvParty{{Ctor: 0, Own: []uint32{0}, Outs: []uint32{0, 7}}}},
		// guard: an output without blinding key (the fee) is requested
		&bvShape{Seed: 14,
			Ins:     []bvIn{{Conf: true, Asset: 0, Value: 1000}},
			Outs:    []bvOut{{Asset: 0, Value: 900, Blind: true}, {Asset: 0, Value: 100, Fee: true}},
			Parties: []bvParty{{Ctor: 0, Own: []uint32{0}, Outs: []uint32{0, 1}}}},
		// a party with nothing to blind (outBlindingArgs[len-1] on an empty slice)
		&bvShape{Seed: 15,
			Ins:     []bvIn{{Conf: true, Asset: 0, Value: 1000}, {Conf: false, Asset: 0, Value: 50}},
			Outs:    []bvOut{{Asset: 0, Value: 950, Blind: true, BlinderIdx: 1}, {Asset: 0, Value: 100, Fee: true}},
			Parties: []bvParty{{Ctor: 0, Own: []uint32{0}, Outs: []uint32{}}, {Ctor: 0, Own: []uint32{1}, Outs: []uint32{0}}}},
		// arguments handed over in descending index order: the last output is the one with the highest index
		&bvShape{Seed: 16,
			Ins:     []bvIn{{Conf: true, Asset: 0, Value: 1000}},
			Outs:    []bvOut{{Asset: 0, Value: 300, Blind: true}, {Asset: 0, Value: 300, Blind: true}, {Asset: 0, Value: 300, Blind: true}, {Asset: 0, Value: 100, Fee: true}},
			Parties: []bvParty{{Ctor: 0, Own: []uint32{0}, Outs: []uint32{2, 0, 1}}}},
		// owned inputs listed in descending order, keys constructor
		&bvShape{Seed: 17,
			Ins:     []bvIn{{Conf: true, Asset: 0, Value: 1000}, {Conf: true, Asset: 1, Value: 7}},
			Outs:    []bvOut{{Asset: 1, Value: 7, Blind: true, BlinderIdx: 1}, {Asset: 0, Value: 900, Blind: true}, {Asset: 0, Value: 100, Fee: true}},
			Parties: []bvParty{{Ctor: 1, Own: []uint32{1, 0}, Outs: []uint32{1, 0}}}},
		// three parties, explicit inputs only: two published scalars
		&bvShape{Seed: 18,
			Ins: []bvIn{{Conf: false, Asset: 0, Value: 1000}, {Conf: false, Asset: 0, Value: 50}, {Conf: false, Asset: 0, Value: 7}},
			Outs: []bvOut{{Asset: 0, Value: 900, Blind: true}, {Asset: 0, Value: 50, Blind: true, BlinderIdx: 1},
				{Asset: 0, Value: 7, Blind: true, BlinderIdx: 2}, {Asset: 0, Value: 100, Fee: true}},
			Parties: []bvParty{{Ctor: 0, Own: []uint32{0, 1, 2}, Outs: []uint32{0}}, {Ctor: 0, Own: []uint32{0, 1, 2}, Outs: []uint32{1}},
				{Ctor: 0, Own: []uint32{0, 1, 2}, Outs: []uint32{2}}}},
		// four parties, every one owning a confidential input: three published scalars
		&bvShape{Seed: 19,
			Ins: []bvIn{{Conf: true, Asset: 0, Value: 1000}, {Conf: true, Asset: 1, Value: 50}, {Conf: true, Asset: 0, Value: 7}, {Conf: true, Asset: 2, Value: 3}},
			Outs: []bvOut{{Asset: 0, Value: 900, Blind: true}, {Asset: 1, Value: 50, Blind: true, BlinderIdx: 1},
				{Asset: 0, Value: 7, Blind: true, BlinderIdx: 2}, {Asset: 2, Value: 3, Blind: true, BlinderIdx: 3}, {Asset: 0, Value: 100, Fee: true}},
			Parties: []bvParty{{Ctor: 0, Own: []uint32{2}, Outs: []uint32{2}}, {Ctor: 0, Own: []uint32{0}, Outs: []uint32{0}},
				{Ctor: 0, Own: []uint32{3}, Outs: []uint32{3}}, {Ctor: 0, Own: []uint32{1}, Outs: []uint32{1}}}},
		// the last of two parties is refused once (only one of its two outputs), then blinds correctly
		&bvShape{Seed: 20,
			Ins: []bvIn{{Conf: true, Asset: 0, Value: 1000}, {Conf: true, Asset: 1, Value: 50}},
			Outs: []bvOut{{Asset: 0, Value: 900, Blind: true}, {Asset: 1, Value: 20, Blind: true, BlinderIdx: 1},
				{Asset: 1, Value: 30, Blind: true, BlinderIdx: 1}, {Asset: 0, Value: 100, Fee: true}},
			Parties: []bvParty{{Ctor: 0, Own: []uint32{0}, Outs: []uint32{0}}, {Ctor: 0, Own: []uint32{1}, Outs: []uint32{1, 2}, Fail: []uint32{1}}}},
		// a packet without the blinded-issuance flag field: new issuance with token, blinded in the same call, token output explicit
		&bvShape{Seed: 21,
			Ins:     []bvIn{{Conf: true, Asset: 0, Value: 1000, Iss: 1, IssValue: 70, IssToken: 2, IssNoFlag: true}},
			Outs:    []bvOut{{Asset: 0, Value: 900, Blind: true}, {Asset: 100, Value: 70, Blind: true}, {Asset: 200, Value: 2}, {Asset: 0, Value: 100, Fee: true}},
			Parties: []bvParty{{Ctor: 0, Own: []uint32{0}, Outs: []uint32{0, 1}, Iss: []uint32{0}}}},
		// the same with the token output blinded as well
		&bvShape{Seed: 22,
			Ins:     []bvIn{{Conf: true, Asset: 0, Value: 1000, Iss: 1, IssValue: 70, IssToken: 2, IssNoFlag: true}},
			Outs:    []bvOut{{Asset: 0, Value: 900, Blind: true}, {Asset: 100, Value: 70, Blind: true}, {Asset: 200, Value: 2, Blind: true}, {Asset: 0, Value: 100, Fee: true}},
			Parties: []bvParty{{Ctor: 0, Own: []uint32{0}, Outs: []uint32{0, 1, 2}, Iss: []uint32{0}}}},
		// unblinded new issuance with tokens, packet serialized between updater and blinder (even seed), token output explicit
		&bvShape{Seed: 24,
			Ins:     []bvIn{{Conf: true, Asset: 0, Value: 1000, Iss: 1, IssValue: 70, IssToken: 2, IssBlinded: false}},
			Outs:    []bvOut{{Asset: 0, Value: 900, Blind: true}, {Asset: 100, Value: 70, Blind: true}, {Asset: 200, Value: 2}, {Asset: 0, Value: 100, Fee: true}},
			Parties: []bvParty{{Ctor: 0, Own: []uint32{0}, Outs: []uint32{0, 1}}}},
		// token-only blinded issuance (null asset amount) on the owned input
		&bvShape{Seed: 25,
			Ins:     []bvIn{{Conf: true, Asset: 0, Value: 1000, Iss: 1, IssValue: 0, IssToken: 3, IssBlinded: true}},
			Outs:    []bvOut{{Asset: 0, Value: 900, Blind: true}, {Asset: 200, Value: 3, Blind: true}, {Asset: 0, Value: 100, Fee: true}},
			Parties: []bvParty{{Ctor: 0, Own: []uint32{0}, Outs: []uint32{0, 1}, Iss: []uint32{0}}}},
		// the same in a two-party exchange: the non-last party blinds the token-only issuance
		&bvShape{Seed: 26,
			Ins:     []bvIn{{Conf: false, Asset: 0, Value: 1000}, {Conf: true, Asset: 1, Value: 5, Iss: 1, IssValue: 0, IssToken: 3, IssBlinded: true}},
			Outs:    []bvOut{{Asset: 0, Value: 900, Blind: true}, {Asset: 1, Value: 5, Blind: true, BlinderIdx: 1}, {Asset: 201, Value: 3, Blind: true, BlinderIdx: 1}, {Asset: 0, Value: 100, Fee: true}},
			Parties: []bvParty{{Ctor: 0, Own: []uint32{1}, Outs: []uint32{1, 2}, Iss: []uint32{1}}, {Ctor: 0, Own: []uint32{0}, Outs: []uint32{0}}}},
	}
	bvGenParallel(len(shapes), func(i int) string { return bvV2CaseLine(shapes[i]) }, w)
}

// hand-written boundary scenarios of the v0 blinder (corpus/bv0.txt, `impl gen bv0corpus 0 0`)
func init() { gens["bv0corpus"] = genBV0Corpus }

func genBV0Corpus(r *Rng, n int, w *bufio.Writer) {
	shapes := []*bvShape{
		// blinded reissuance (input 1 spends the token) of an asset that input 2 spends as well
		&bvShape{Seed: 31, IssKeys: true,
			Ins:  []bvIn{{Conf: false, Asset: 0, Value: 1000}, {Conf: true, Asset: 201, Value: 1, Iss: 2, IssValue: 40}, {Conf: true, Asset: 101, Value: 60}},
			Outs: []bvOut{{Asset: 0, Value: 900, Blind: true}, {Asset: 101, Value: 100, Blind: true}, {Asset: 201, Value: 1, Blind: true}, {Asset: 0, Value: 100, Fee: true}},
			Sel:  []int{0, 1, 2}},
		// the same with the spent UTXO of the asset placed before the reissuance input
		&bvShape{Seed: 32, IssKeys: true,
			Ins:  []bvIn{{Conf: true, Asset: 0, Value: 1000}, {Conf: true, Asset: 102, Value: 60}, {Conf: true, Asset: 202, Value: 1, Iss: 2, IssValue: 40}},
			Outs: []bvOut{{Asset: 102, Value: 100, Blind: true}, {Asset: 0, Value: 900, Blind: true}, {Asset: 202, Value: 1, Blind: true}, {Asset: 0, Value: 100, Fee: true}},
			Sel:  []int{0, 1, 2}},
		// blinded new issuance with token on a middle input
		&bvShape{Seed: 33, IssKeys: true,
			Ins:  []bvIn{{Conf: true, Asset: 0, Value: 1000}, {Conf: false, Asset: 1, Value: 5, Iss: 1, IssValue: 70, IssToken: 2}},
			Outs: []bvOut{{Asset: 0, Value: 900, Blind: true}, {Asset: 1, Value: 5, Blind: true}, {Asset: 101, Value: 70, Blind: true}, {Asset: 201, Value: 2, Blind: true}, {Asset: 0, Value: 100, Fee: true}},
			Sel:  []int{0, 1, 2, 3}},
		// non-contiguous selection
		&bvShape{Seed: 34,
			Ins:  []bvIn{{Conf: true, Asset: 0, Value: 1000}},
			Outs: []bvOut{{Asset: 0, Value: 300}, {Asset: 0, Value: 600, Blind: true}, {Asset: 0, Value: 100, Fee: true}},
			Sel:  []int{1}},
		// new issuance with token amount, issuance keys carrying the asset key only (refused)
		&bvShape{Seed: 35, IssKeys: true, NoTokKey: true,
			Ins:  []bvIn{{Conf: true, Asset: 0, Value: 1000, Iss: 1, IssValue: 70, IssToken: 2}},
			Outs: []bvOut{{Asset: 0, Value: 900, Blind: true}, {Asset: 100, Value: 70, Blind: true}, {Asset: 200, Value: 2, Blind: true}, {Asset: 0, Value: 100, Fee: true}},
			Sel:  []int{0, 1, 2}},
		// asset key only is enough when there is no token amount
		&bvShape{Seed: 36, IssKeys: true, NoTokKey: true,
			Ins:  []bvIn{{Conf: true, Asset: 0, Value: 1000, Iss: 1, IssValue: 70, IssToken: 0}},
			Outs: []bvOut{{Asset: 0, Value: 900, Blind: true}, {Asset: 100, Value: 70, Blind: true}, {Asset: 0, Value: 100, Fee: true}},
			Sel:  []int{0, 1}},
	}
	bvGenParallel(len(shapes), func(i int) string { return bvV0CaseLine(shapes[i]) }, w)
}

// history corpus (corpus/bvh.txt, `impl gen bvhcorpus 0 0`): one generator object, two packets spending
// different confidential coins at input index 0
func init() { gens["bvhcorpus"] = genBVHCorpus }

func genBVHCorpus(r *Rng, n int, w *bufio.Writer) {
	step := func(seed uint64, v uint64) *bvShape {
		return &bvShape{Seed: seed,
			Ins:     []bvIn{{Conf: true, Asset: 0, Value: v}},
			Outs:    []bvOut{{Asset: 0, Value: v - 100, Blind: true}, {Asset: 0, Value: 100, Fee: true}},
			Parties: []bvParty{{Ctor: 1, Own: []uint32{0}, Outs: []uint32{0}}}}
	}
	hists := [][]*bvShape{{step(41, 1000), step(42, 777)}, {step(43, 5000), step(44, 5000), step(45, 123456)}}
	bvGenParallel(len(hists), func(i int) string { return bvHistLine(hists[i]) }, w)
}
