package main

// C05 — S: the property stated directly on the implementation.  The scenario of the case line is
// run again on the real blinders; when blinding reports success the resulting transaction is
// checked with independent arithmetic:
//   balance    sum(spent) + sum(issued) = sum(outputs incl. fee) on bvCurve points parsed with btcec
//              (explicit amounts multiplied onto GeneratorGenerate(asset))
//   rangeproof every blinded output: VerifyRangeProof(value commitment, asset commitment, script)
//   surjection every blinded output: libsecp SurjectionProofVerify against the generators a verifier
//              sees on the spent outputs and issuances (Elements order)
//   blindedset exactly the outputs asked for are blinded, the others are untouched
// A blinding call that returns an error is skipped.

import (
	"bytes"
	"fmt"
	"sort"

	"github.com/vulpemventures/go-elements/confidential"
	"github.com/vulpemventures/go-elements/elementsutil"
	"github.com/vulpemventures/go-elements/transaction"
)

type c05Fail struct {
	site, detail string
	known        bool // belongs to a class already recorded in known_findings.txt
}

func bvPickFail(fs []c05Fail) string {
	if len(fs) == 0 {
		return ""
	}
	// a failure outside the recorded classes is reported first so that it is never masked
	for _, f := range fs {
		if !f.known {
			return fail(f.site, f.detail)
		}
	}
	return fail(fs[0].site, fs[0].detail)
}

// checks common to both blinders once the final transaction is known.
// asked[j]: output j was to be blinded; issRP: issuance range proofs per input.
func (w *bvWorld) checkTx(pfx string, tx *transaction.Transaction, iss []bvIssView, asked []bool,
	surjClass func(j int) (string, bool), balClass func() (string, bool)) []c05Fail {
	var fs []c05Fail
	sh := w.sh
	// exactly the requested outputs are blinded
	for j, o := range tx.Outputs {
		if asked[j] != o.IsConfidential() {
			fs = append(fs, c05Fail{pfx + ".blindedset", fmt.Sprintf("out%d-asked=%v-blinded=%v", j, asked[j], o.IsConfidential()), false})
			continue
		}
		if !asked[j] {
			val, _ := elementsutil.ValueToBytes(sh.Outs[j].Value)
			if !bytes.Equal(o.Value, val) || !bytes.Equal(o.Asset, append([]byte{0x01}, w.outs[j].asset...)) ||
				len(o.RangeProof) != 0 || len(o.SurjectionProof) != 0 {
				fs = append(fs, c05Fail{pfx + ".blindedset", fmt.Sprintf("out%d-explicit-output-changed", j), false})
			}
			continue
		}
		if !bytes.Equal(o.Script, w.outs[j].script) {
			fs = append(fs, c05Fail{pfx + ".blindedset", fmt.Sprintf("out%d-script-changed", j), false})
		}
		if len(o.Nonce) != 33 {
			fs = append(fs, c05Fail{pfx + ".blindedset", fmt.Sprintf("out%d-no-ecdh-nonce", j), false})
		}
	}
	// balance
	bal, err := w.balanced(tx, iss)
	if err != nil {
		fs = append(fs, c05Fail{pfx + ".balance", "unparsable-" + fmt.Sprint(err), false})
	} else if !bal {
		d, k := balClass()
		fs = append(fs, c05Fail{pfx + ".balance", d, k})
	}
	// proofs
	tagsE := w.chainTags(tx, true)
	tagsL := w.chainTags(tx, false)
	for j, o := range tx.Outputs {
		if !o.IsConfidential() {
			continue
		}
		if !confidential.VerifyRangeProof(o.Value, o.Asset, o.Script, o.RangeProof) {
			fs = append(fs, c05Fail{pfx + ".rangeproof", fmt.Sprintf("out%d", j), false})
		}
		if !bvVerifySurjectionOnChain(o.SurjectionProof, tagsE, o.Asset) {
			d, k := surjClass(j)
			if d == "" {
				if bvVerifySurjectionOnChain(o.SurjectionProof, tagsL, o.Asset) {
					d, k = "issuance-order", true
				} else if bvVerifySurjectionOnChain(o.SurjectionProof, w.chainTagsView(tx, false, true), o.Asset) {
					d, k = "null-issuance-amount", true
				} else {
					d = "other"
				}
			}
			fs = append(fs, c05Fail{pfx + ".surjection", fmt.Sprintf("%s-out%d", d, j), k})
		}
	}
	// blinded issuance amounts carry a range proof that verifies (empty script)
	for i, in := range tx.Inputs {
		if in.Issuance == nil {
			continue
		}
		chk := func(field, asset, rp []byte, what string) {
			if len(field) != 33 {
				return
			}
			ac, err := confidential.AssetCommitment(asset, make([]byte, 32))
			if err != nil || !confidential.VerifyRangeProof(field, ac, []byte{}, rp) {
				fs = append(fs, c05Fail{pfx + ".issuance-rangeproof", fmt.Sprintf("in%d-%s", i, what), false})
			}
		}
		chk(in.Issuance.AssetAmount, w.ins[i].issAsset, iss[i].amountRP, "amount")
		chk(in.Issuance.TokenAmount, w.ins[i].issToken, iss[i].tokenRP, "token")
	}
	return fs
}

func checkBV2(t *Toks) string {
	sh := bvReadShape(t, false)
	w := bvBuildWorld(sh, bvNeedProofs(sh, false), false)
	r := bvRunV2(w)
	skip, fs := bvCheckV2Result(w, r, "")
	if skip != "" {
		return skip
	}
	if s := bvPickFail(fs); s != "" {
		return s
	}
	return "OK"
}

// history: one generator object for several packets; every packet is checked on its own
func checkBVH(t *Toks) string {
	subs := bvSplitHist(t)
	gen := bvSharedGen(bvHistShapes(subs))
	var all []c05Fail
	done := 0
	for k, st := range subs {
		sh := bvReadShape(st, false)
		w := bvBuildWorld(sh, true, false)
		r := bvRunV2With(w, gen)
		skip, fs := bvCheckV2Result(w, r, fmt.Sprintf("-step%d", k))
		if skip == "" {
			done++
		}
		all = append(all, fs...)
	}
	if s := bvPickFail(all); s != "" {
		return s
	}
	if done == 0 {
		return "SKIP blinding-err"
	}
	return "OK"
}

// S on one finished v2 scenario.  skip != "" when blinding did not report success.
func bvCheckV2Result(w *bvWorld, r *bvV2Result, sfx string) (string, []c05Fail) {
	sh := w.sh
	var pre []c05Fail
	// atomicity: a refused blinder call leaves the published scalars as they were
	for k, o := range r.Obs {
		if o.FailRes == "err" && !o.AtomOK {
			pre = append(pre, c05Fail{"v2.atomicity", fmt.Sprintf("scalars-changed-by-refused-call-p%d%s", k, sfx), false})
		}
	}
	if !r.Done {
		last := "none"
		if len(r.Obs) > 0 {
			last = r.Obs[len(r.Obs)-1].Res
		}
		if len(pre) > 0 {
			return "", pre
		}
		return "SKIP blinding-" + last, nil
	}
	tx, err := r.Final.UnsignedTx()
	if err != nil {
		return "", append(pre, c05Fail{"v2.unsignedtx", "error" + sfx, false})
	}
	asked := make([]bool, len(sh.Outs))
	by := make([]int, len(sh.Outs)) // which party generated the proofs of output j
	for k, p := range sh.Parties {
		for _, j := range p.Outs {
			if int(j) < len(asked) {
				asked[j] = true
				by[j] = k
			}
		}
	}
	ownsAll := func(k int) bool {
		own := map[uint32]bool{}
		for _, i := range sh.Parties[k].Own {
			own[i] = true
		}
		for i := range sh.Ins {
			if !own[uint32(i)] {
				return false
			}
		}
		return true
	}
	surjClass := func(j int) (string, bool) {
		if !ownsAll(by[j]) {
			return "unowned-input", true
		}
		return "", false
	}
	balClass := func() (string, bool) {
		// no class of imbalance is tolerated; the detail only says where to look first
		for k := 0; k < len(sh.Parties)-1; k++ {
			for _, o := range r.Obs[k].Owned {
				if !bvAllZero(o.AssetBlinder) || !bvAllZero(o.ValueBlinder) {
					return "nonlast-input-blinders", false
				}
			}
		}
		return "other", false
	}
	// an output asked for twice (in one call or by two parties) is outside the property: the second
	// set of commitments overwrites the first while both were accounted for
	reqs := make([]int, len(sh.Outs))
	for _, p := range sh.Parties {
		for _, j := range p.Outs {
			if int(j) < len(reqs) {
				reqs[j]++
			}
		}
	}
	for _, c := range reqs {
		if c > 1 {
			if len(pre) > 0 {
				return "", pre
			}
			return "SKIP output-requested-twice", nil
		}
	}
	// every confidential input must be owned by exactly one party, else the request itself is invalid
	cnt := make([]int, len(sh.Ins))
	for _, p := range sh.Parties {
		for _, i := range p.Own {
			if int(i) < len(cnt) {
				cnt[i]++
			}
		}
	}
	for i, in := range sh.Ins {
		if in.Conf && cnt[i] != 1 {
			if len(pre) > 0 {
				return "", pre
			}
			return "SKIP ownership-not-a-partition", nil
		}
	}
	fs := w.checkTx("v2", tx, bvV2IssuanceView(r.Final), asked, surjClass, balClass)
	for i := range fs {
		fs[i].detail += sfx
	}
	return "", append(pre, fs...)
}

func bvAllZero(b []byte) bool {
	for _, x := range b {
		if x != 0 {
			return false
		}
	}
	return true
}

func checkBV0(t *Toks) string {
	sh := bvReadShape(t, true)
	w := bvBuildWorld(sh, sh.Ctor0 == 1, true)
	bvReadOpenings(t, w)
	_, stream := bvReadV0Obs(t)
	// the request must make sense: indexes in range, only outputs with a script
	sel := append([]int{}, sh.Sel...)
	sort.Ints(sel)
	for _, j := range sel {
		if j >= len(sh.Outs) || sh.Outs[j].Fee {
			return "SKIP invalid-selection"
		}
	}
	r := bvRunV0(w, stream)
	if r.Res == "panic" {
		// a valid selection (indexes in range, outputs with a script) must never crash the blinder
		prefix := true
		for k, j := range sel {
			if j != k {
				prefix = false
			}
		}
		if !prefix {
			return fail("v0.writeback", "panic-selection-not-0..k-1")
		}
		return fail("v0.panic", "other")
	}
	if r.Res != "ok" {
		return "SKIP blinding-err"
	}
	asked := make([]bool, len(sh.Outs))
	for _, j := range sel {
		asked[j] = true
	}
	fs := w.checkTx("v0", r.P.UnsignedTx, bvV0IssuanceView(w, r.P), asked,
		func(j int) (string, bool) { return "", false },
		func() (string, bool) { return "other", false })
	if s := bvPickFail(fs); s != "" {
		return s
	}
	return "OK"
}
