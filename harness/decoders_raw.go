package main

// C12 oracle on the shared malformed transaction / block streams (families raw, rawblk)
func checkC12Raw(t *Toks) string {
	bs := t.Hex()
	return checkC12Dec(&Toks{l: []string{"tx", "1", hx(bs)}, line: t.line})
}
func checkC12RawBlk(t *Toks) string {
	bs := t.Hex()
	return checkC12Dec(&Toks{l: []string{"block", "1", hx(bs)}, line: t.line})
}
func init() {
	checks["C12/raw"] = checkC12Raw
	checks["C12/rawblk"] = checkC12RawBlk
}
