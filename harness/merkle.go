package main

// merkle family (C20): an independent partial-merkle-tree builder (Bitcoin's
// CPartialMerkleTree::TraverseAndBuild / CalcHash, positional form, own wire writer,
// crypto/sha256), generators and runners for
//
//	mk    <header> <n> (<txid> <0|1>)*n      build the proof, parse it, ExtractMatches
//	proof <blob>                              raw merkle block: parse + ExtractMatches
//	claim ...                                 pegin.Claim (see claim.go)

import (
	"bufio"
	"bytes"
	"crypto/sha256"
	"encoding/binary"
	"fmt"
	"strings"

	"github.com/vulpemventures/go-elements/block"
)

func dsha(b []byte) []byte {
	a := sha256.Sum256(b)
	c := sha256.Sum256(a[:])
	return c[:]
}
func nodeHash(l, r []byte) []byte { return dsha(append(append([]byte{}, l...), r...)) }

// the block's merkle root, level by level (ComputeMerkleRoot)
func mkRootLevels(txids [][]byte) []byte {
	lvl := append([][]byte{}, txids...)
	for len(lvl) > 1 {
		if len(lvl)%2 == 1 {
			lvl = append(lvl, lvl[len(lvl)-1])
		}
		var nx [][]byte
		for i := 0; i < len(lvl); i += 2 {
			nx = append(nx, nodeHash(lvl[i], lvl[i+1]))
		}
		lvl = nx
	}
	return lvl[0]
}

type pmt struct {
	n       int
	bits    []bool
	bitH    []int // height of the node each bit belongs to
	hashes  [][]byte
	txids   [][]byte
	matched []bool
}

func (p *pmt) width(h int) int { return (p.n + (1 << uint(h)) - 1) >> uint(h) }
func (p *pmt) calcHash(h, pos int) []byte {
	if h == 0 {
		return p.txids[pos]
	}
	l := p.calcHash(h-1, pos*2)
	r := l
	if pos*2+1 < p.width(h-1) {
		r = p.calcHash(h-1, pos*2+1)
	}
	return nodeHash(l, r)
}
func (p *pmt) build(h, pos int) {
	parent := false
	for i := pos << uint(h); i < (pos+1)<<uint(h) && i < p.n; i++ {
		parent = parent || p.matched[i]
	}
	p.bits = append(p.bits, parent)
	p.bitH = append(p.bitH, h)
	if h == 0 || !parent {
		p.hashes = append(p.hashes, p.calcHash(h, pos))
		return
	}
	p.build(h-1, pos*2)
	if pos*2+1 < p.width(h-1) {
		p.build(h-1, pos*2+1)
	}
}
func (p *pmt) height() int {
	h := 0
	for p.width(h) > 1 {
		h++
	}
	return h
}
func mkPMT(txids [][]byte, matched []bool) *pmt {
	p := &pmt{n: len(txids), txids: txids, matched: matched}
	h := 0
	for p.width(h) > 1 {
		h++
	}
	p.build(h, 0)
	return p
}
func packBits(bits []bool) []byte {
	out := make([]byte, (len(bits)+7)/8)
	for i, b := range bits {
		if b {
			out[i/8] |= 1 << uint(i%8)
		}
	}
	return out
}
func wrVarint(b *bytes.Buffer, v uint64) {
	switch {
	case v < 0xfd:
		b.WriteByte(byte(v))
	case v <= 0xffff:
		b.WriteByte(0xfd)
		binary.Write(b, binary.LittleEndian, uint16(v))
	case v <= 0xffffffff:
		b.WriteByte(0xfe)
		binary.Write(b, binary.LittleEndian, uint32(v))
	default:
		b.WriteByte(0xff)
		binary.Write(b, binary.LittleEndian, v)
	}
}
func mkBlob(header []byte, count uint32, hashes [][]byte, flags []byte) []byte {
	var b bytes.Buffer
	b.Write(header)
	binary.Write(&b, binary.LittleEndian, count)
	wrVarint(&b, uint64(len(hashes)))
	for _, h := range hashes {
		b.Write(h)
	}
	wrVarint(&b, uint64(len(flags)))
	b.Write(flags)
	return b.Bytes()
}
func mkHeader(r *Rng, root []byte) []byte {
	h := r.Bytes(80)
	copy(h[36:68], root)
	return h
}

func hexList(l [][]byte) string {
	if len(l) == 0 {
		return "-"
	}
	s := make([]string, len(l))
	for i, x := range l {
		s[i] = hx(x)
	}
	return strings.Join(s, ",")
}

// runs the implementation on a raw merkle block
type proofRes struct {
	class   string // parse-err, extract-err, ok
	mb      *block.MerkleBlock
	root    []byte
	matches [][]byte
}

func runProof(blob []byte) proofRes {
	mb, err := block.NewMerkleBlockFromBuffer(bytes.NewBuffer(append([]byte{}, blob...)))
	if err != nil {
		return proofRes{class: "parse-err"}
	}
	root, ms, err := mb.ExtractMatches()
	if err != nil {
		return proofRes{class: "extract-err", mb: mb}
	}
	var l [][]byte
	for i := range ms {
		l = append(l, ms[i].CloneBytes())
	}
	return proofRes{class: "ok", mb: mb, root: root.CloneBytes(), matches: l}
}
func showProof(p proofRes) string {
	if p.class == "parse-err" {
		return "err res=parse-err"
	}
	t := p.mb.PartialMerkleTree
	s := fmt.Sprintf("cnt=%x nh=%d flags=%s hroot=%s", t.TxTotalCount, len(t.TxHashes), hx(packBits(t.VBits)),
		hx(p.mb.BlockHeader.MerkleRoot.CloneBytes()))
	if p.class == "extract-err" {
		return "err res=extract-err " + s
	}
	return fmt.Sprintf("res=ok %s root=%s matches=%s", s, hx(p.root), hexList(p.matches))
}

func readMk(t *Toks) (header []byte, txids [][]byte, matched []bool) {
	header = t.Hex()
	n := t.Int()
	for i := 0; i < n; i++ {
		txids = append(txids, t.Hex())
		matched = append(matched, t.Int() == 1)
	}
	return
}

func runMk(t *Toks) string {
	header, txids, matched := readMk(t)
	mroot := hx(mkRootLevels(txids))
	p := mkPMT(txids, matched)
	blob := mkBlob(header, uint32(p.n), p.hashes, packBits(p.bits))
	return fmt.Sprintf("blob=%s mroot=%s %s", hx(blob), mroot, showProof(runProof(blob)))
}

func runProofLine(t *Toks) string { return showProof(runProof(t.Hex())) }

func mkLine(r *Rng, txids [][]byte, matched []bool) string {
	var b sb
	b.add("mk")
	b.addh(mkHeader(r, mkRootLevels(txids)))
	b.addn(uint64(len(txids)))
	for i := range txids {
		b.addh(txids[i])
		b.add(b2s(matched[i]))
	}
	return strings.TrimSpace(b.String())
}
func randTxids(r *Rng, n int) [][]byte {
	l := make([][]byte, n)
	for i := range l {
		l[i] = r.Bytes(32)
	}
	return l
}
func randMatch(r *Rng, n int) []bool {
	m := make([]bool, n)
	switch r.Intn(5) {
	case 0: // none
	case 1: // exactly one
		m[r.Intn(n)] = true
	case 2: // all
		for i := range m {
			m[i] = true
		}
	case 3: // sparse
		for i := range m {
			m[i] = r.Chance(8)
		}
	default:
		for i := range m {
			m[i] = r.Bool()
		}
	}
	return m
}

// exhaustive: every n <= bound and every match subset; then `n` random larger blocks
func genMk(r *Rng, n int, w *bufio.Writer) {
	bound := 9
	if n > 100 {
		bound = 14
	}
	for k := 1; k <= bound; k++ {
		txids := randTxids(r, k)
		for mask := 0; mask < 1<<uint(k); mask++ {
			m := make([]bool, k)
			for i := range m {
				m[i] = mask>>uint(i)&1 == 1
			}
			fmt.Fprintln(w, mkLine(r, txids, m))
		}
	}
	for i := 0; i < n; i++ {
		k := 10 + r.Intn(60)
		switch {
		case i%8 == 0:
			k = r.Pick(15, 16, 17, 31, 32, 33, 63, 64, 65, 127, 128, 129)
		case i%8 == 1 && n > 100:
			k = 200 + r.Intn(1200)
		case i%8 == 1:
			k = 130 + r.Intn(120)
		}
		fmt.Fprintln(w, mkLine(r, randTxids(r, k), randMatch(r, k)))
	}
}

// corrupted and malformed raw proofs
func corruptProof(r *Rng, kind int) []byte {
	if kind == 13 { // valid proofs of one or two transactions in blocks around the count limit
		n := r.Pick(16665, 16666, 16667, 16668, 20000, 8192, 8193)
		txids := randTxids(r, n)
		matched := make([]bool, n)
		matched[r.Intn(n)] = true
		if r.Bool() {
			matched[n-1] = true
		}
		p := mkPMT(txids, matched)
		return mkBlob(mkHeader(r, p.calcHash(p.height(), 0)), uint32(n), p.hashes, packBits(p.bits))
	}
	n := 1 + r.Intn(9)
	if r.Chance(15) {
		n = 10 + r.Intn(30)
	}
	txids := randTxids(r, n)
	matched := randMatch(r, n)
	if kind == 11 && n >= 2 { // equal siblings (CVE-2012-2459 pattern), at height 0 or higher up
		if n >= 4 && r.Bool() {
			w := 2
			if n >= 8 && r.Bool() {
				w = 4
			}
			i := r.Intn(n/(2*w)) * 2 * w
			for j := 0; j < w; j++ {
				txids[i+w+j] = txids[i+j]
			}
			matched[i+r.Intn(2*w)] = true
		} else {
			i := r.Intn(n/2) * 2
			txids[i+1] = txids[i]
			matched[i] = true
		}
	}
	p := mkPMT(txids, matched)
	header := mkHeader(r, mkRootLevels(txids))
	hashes := append([][]byte{}, p.hashes...)
	flags := packBits(p.bits)
	count := uint32(n)
	switch kind {
	case 1:
		i := r.Intn(len(hashes))
		h := append([]byte{}, hashes[i]...)
		h[r.Intn(32)] ^= 1 << uint(r.Intn(8))
		hashes[i] = h
	case 2:
		flags[r.Intn(len(flags))] ^= 1 << uint(r.Intn(8))
	case 3:
		count = uint32(r.Pick(0, n-1, n+1, 2*n, 16666, 16667, 0xffffffff, n+256, int(r.U64()&0xffff)))
	case 4:
		hashes = append(hashes, r.Bytes(32))
	case 5:
		flags = append(flags, byte(r.Pick(0, 0, 1, 0xff, int(r.U64()&0xff))))
	case 6:
		if r.Bool() && len(hashes) > 0 {
			hashes = hashes[:len(hashes)-1]
		} else {
			flags = flags[:len(flags)-1]
		}
	}
	blob := mkBlob(header, count, hashes, flags)
	switch kind {
	case 7:
		blob = blob[:r.Intn(len(blob))]
	case 8:
		blob = append(blob, r.Bytes(1+r.Intn(5))...)
	case 9: // non-canonical varint for the hash count
		if len(hashes) < 0xfd {
			var b bytes.Buffer
			b.Write(header)
			binary.Write(&b, binary.LittleEndian, count)
			b.Write([]byte{0xfd, byte(len(hashes)), 0})
			for _, h := range hashes {
				b.Write(h)
			}
			wrVarint(&b, uint64(len(flags)))
			b.Write(flags)
			blob = b.Bytes()
		}
	case 10: // counts beyond the wire limits
		var b bytes.Buffer
		b.Write(header)
		binary.Write(&b, binary.LittleEndian, count)
		if r.Bool() {
			wrVarint(&b, uint64(r.Pick(400001, 400002, 1<<32)))
			b.Write(r.Bytes(64))
		} else {
			wrVarint(&b, 0)
			wrVarint(&b, uint64(r.Pick(50000, 50001, 1<<20)))
			b.Write(r.Bytes(16))
		}
		blob = b.Bytes()
	case 12:
		blob = r.Bytes(84 + r.Intn(120))
	}
	return blob
}

func genProof(r *Rng, n int, w *bufio.Writer) {
	for i := 0; i < n; i++ {
		fmt.Fprintf(w, "proof %s\n", hx(corruptProof(r, i%14)))
	}
}

// dense match sets: proofs that visit (nearly) every node of the tree, where the number of flag bits
// exceeds 2n-1 because odd-width levels are walked through a duplicated last node.  For every n of the
// range: all / even / odd / all-but-one transactions matched.
func mkDenseSets(r *Rng, n int) [][]bool {
	all, even, odd, but := make([]bool, n), make([]bool, n), make([]bool, n), make([]bool, n)
	skip := r.Intn(n)
	for i := 0; i < n; i++ {
		all[i], even[i], odd[i], but[i] = true, i%2 == 0, i%2 == 1, i != skip
	}
	return [][]bool{all, even, odd, but}
}
func genMkDenseRange(r *Rng, w *bufio.Writer, fam string, ns []int) {
	for _, k := range ns {
		txids := randTxids(r, k)
		for _, m := range mkDenseSets(r, k) {
			fmt.Fprintln(w, fam+mkLine(r, txids, m)[2:])
		}
	}
}
func genMkDense(r *Rng, n int, w *bufio.Writer) {
	var ns []int
	for k := 1; k <= 72; k++ {
		ns = append(ns, k)
	}
	genMkDenseRange(r, w, "mkdense", ns)
}
func genMkDenseBig(r *Rng, n int, w *bufio.Writer) {
	ns := []int{127, 128, 129, 130, 255, 256, 257, 258, 511, 512, 513, 514, 1023, 1024, 1025, 1026}
	if n > 100 { // thorough: more sizes around the powers of two and some random ones
		ns = append(ns, 2047, 2048, 2049, 4095, 4096, 4097, 73+r.Intn(50), 131+r.Intn(120), 259+r.Intn(250), 515+r.Intn(500))
	}
	genMkDenseRange(r, w, "mkdbig", ns)
}

// small blocks for the literal reading of the corruption clause (flag bits, counts)
func genMkc(r *Rng, n int, w *bufio.Writer) {
	for i := 0; i < n; i++ {
		k := 1 + r.Intn(12)
		fmt.Fprintln(w, "mkc"+mkLine(r, randTxids(r, k), randMatch(r, k))[2:])
	}
}

func init() {
	gens["mkdense"] = genMkDense
	runs["mkdense"] = runMk
	gens["mkdbig"] = genMkDenseBig
	runs["mkdbig"] = runMk
	gens["mkc"] = genMkc
	runs["mkc"] = runMk
	gens["mk"] = genMk
	runs["mk"] = runMk
	gens["proof"] = genProof
	runs["proof"] = runProofLine
}

// ownExtract is an independent re-statement of CPartialMerkleTree::ExtractMatches (Bitcoin
// Core's rules) on a raw merkle block; used by the oracles to decide what a proof proves.
func ownExtract(blob []byte) (root []byte, matches [][]byte, ok bool) {
	if len(blob) < 85 {
		return nil, nil, false
	}
	count := int(binary.LittleEndian.Uint32(blob[80:84]))
	rd := blob[84:]
	varint := func() (uint64, bool) {
		if len(rd) == 0 {
			return 0, false
		}
		d := rd[0]
		rd = rd[1:]
		sz, min := 0, uint64(0)
		switch d {
		case 0xfd:
			sz, min = 2, 0xfd
		case 0xfe:
			sz, min = 4, 0x10000
		case 0xff:
			sz, min = 8, 0x100000000
		default:
			return uint64(d), true
		}
		if len(rd) < sz {
			return 0, false
		}
		var v uint64
		for i := sz - 1; i >= 0; i-- {
			v = v<<8 | uint64(rd[i])
		}
		rd = rd[sz:]
		return v, v >= min
	}
	nh, good := varint()
	if !good || nh > uint64(len(rd)/32) {
		return nil, nil, false
	}
	var hashes [][]byte
	for i := 0; i < int(nh); i++ {
		hashes = append(hashes, rd[:32])
		rd = rd[32:]
	}
	nf, good := varint()
	if !good || nf > uint64(len(rd)) {
		return nil, nil, false
	}
	flags := rd[:nf]
	nbits := 8 * len(flags)
	bit := func(i int) bool { return flags[i/8]>>uint(i%8)&1 == 1 }
	if count == 0 || count > 4000000/240 || len(hashes) > count || nbits < len(hashes) {
		return nil, nil, false
	}
	width := func(h int) int { return (count + (1 << uint(h)) - 1) >> uint(h) }
	height := 0
	for width(height) > 1 {
		height++
	}
	bu, hu, bad := 0, 0, false
	var walk func(h, pos int) []byte
	walk = func(h, pos int) []byte {
		if bu >= nbits {
			bad = true
			return nil
		}
		parent := bit(bu)
		bu++
		if h == 0 || !parent {
			if hu >= len(hashes) {
				bad = true
				return nil
			}
			x := hashes[hu]
			hu++
			if h == 0 && parent {
				matches = append(matches, x)
			}
			return x
		}
		l := walk(h-1, pos*2)
		r := l
		if pos*2+1 < width(h-1) {
			r = walk(h-1, pos*2+1)
			if !bad && bytes.Equal(l, r) {
				bad = true
			}
		}
		if bad {
			return nil
		}
		return nodeHash(l, r)
	}
	root = walk(height, 0)
	if bad || (bu+7)/8 != (nbits+7)/8 || hu != len(hashes) {
		return nil, nil, false
	}
	return root, matches, true
}
