package main

// Family vsig (property C10): partial-signature validation of PSET inputs, v0 and v2.
//
// Case line:
//   vsig <ver 0|2> <idx> <TX> <nin> { <prevtxid> <previndex> <hasNonWit> [TX] <hasWit> [script value]
//        <redeem> <witscript> <sighashtype>[:<finalscriptsig>:<finalscriptwitness>] <nsigs> { <present> [<pub> <sig>] } }
//        <npriv> { <pub> <privkey> }
//        <nkeys> { <pub> <ok> <compressed> <hash160(pub)> } <nder> { <der> <ok> }
//        <ndig> { <algo 0|1> <inidx> <script> <amount> <ht> <digest> } <nver> { <compressed> <digest> <der> }
// Optional byte strings: "nil" = nil slice, "-" = empty non-nil, else hex.
// Everything after the inputs is the oracle part read by the model driver only: key parsing,
// DER parsing, the candidate digests (computed with the implementation's own
// HashForSignature / HashForWitnessV0) and the (key, digest, signature) triples that verify.

import (
	"bufio"
	"bytes"
	"strconv"
	"strings"
	"crypto/sha256"
	"encoding/hex"
	"fmt"
	"sort"

	"github.com/btcsuite/btcd/btcec/v2"
	"github.com/btcsuite/btcd/btcec/v2/ecdsa"
	"github.com/btcsuite/btcd/btcutil/psbt"
	"github.com/btcsuite/btcd/txscript"
	"github.com/vulpemventures/go-elements/payment"
	"github.com/vulpemventures/go-elements/pset"
	"github.com/vulpemventures/go-elements/psetv2"
	"github.com/vulpemventures/go-elements/transaction"
)

type vsSig struct {
	present bool
	pub     []byte // nil-able
	sig     []byte
}

type vsIn struct {
	prevTxid  []byte
	prevIndex uint32
	nonwit    *transaction.Transaction
	wit       *transaction.TxOutput
	redeem    []byte // nil-able
	witscript []byte // nil-able
	sighash   uint32 // PInput.SighashType / Input.SigHashType (not read by the validator)
	finalSig  []byte // FinalScriptSig (nil-able; not read by the validator)
	finalWit  []byte // FinalScriptWitness (nil-able; not read by the validator)
	sigs      []*vsSig
}

type vsCase struct {
	ver   int
	idx   int
	tx    *transaction.Transaction
	ins   []*vsIn
	privs map[string][]byte // partial-signature pubkey bytes -> private key (used by S to re-sign; ignored by run and by the model)
}

// every key made while generating one case; reset by genVsCases
var vsKeyLog []*vsKey

// ---------- optional byte strings ----------

func optHex(b []byte) string {
	if b == nil {
		return "nil"
	}
	if len(b) == 0 {
		return "-"
	}
	return hex.EncodeToString(b)
}

func (t *Toks) OptHex() []byte { return optHexDecode(t.Next()) }

func optHexDecode(s string) []byte {
	switch s {
	case "nil":
		return nil
	case "-":
		return []byte{}
	}
	b, err := hex.DecodeString(s)
	if err != nil {
		panic(err)
	}
	return b
}

// ---------- case line ----------

func readVs(t *Toks) *vsCase {
	c := &vsCase{}
	c.ver = t.Int()
	c.idx = t.Int()
	c.tx = readTx(t)
	n := t.Int()
	for k := 0; k < n; k++ {
		in := &vsIn{}
		in.prevTxid = t.OptHex()
		in.prevIndex = uint32(t.U64())
		if t.Int() == 1 {
			in.nonwit = readTx(t)
		}
		if t.Int() == 1 {
			s := t.OptHex()
			v := t.OptHex()
			in.wit = &transaction.TxOutput{Asset: vsAsset(), Value: v, Script: s, Nonce: []byte{0}}
		}
		in.redeem = t.OptHex()
		in.witscript = t.OptHex()
		{
			parts := strings.Split(t.Next(), ":")
			v, err := strconv.ParseUint(parts[0], 10, 32)
			if err != nil {
				panic(err)
			}
			in.sighash = uint32(v)
			if len(parts) == 3 {
				in.finalSig = optHexDecode(parts[1])
				in.finalWit = optHexDecode(parts[2])
			}
		}
		ns := t.Int()
		for j := 0; j < ns; j++ {
			s := &vsSig{}
			if t.Int() == 1 {
				s.present = true
				s.pub = t.OptHex()
				s.sig = t.OptHex()
			}
			in.sigs = append(in.sigs, s)
		}
		c.ins = append(c.ins, in)
	}
	c.privs = map[string][]byte{}
	if len(t.l) > 0 {
		np := t.Int()
		for j := 0; j < np; j++ {
			pub := t.OptHex()
			c.privs[string(pub)] = t.OptHex()
		}
	}
	return c
}

func parseVs(line string) *vsCase {
	t := &Toks{l: splitSp(line), line: line}
	t.Next()
	return readVs(t)
}

func splitSp(s string) []string {
	var out []string
	start := 0
	for i := 0; i <= len(s); i++ {
		if i == len(s) || s[i] == ' ' {
			if i > start {
				out = append(out, s[start:i])
			}
			start = i + 1
		}
	}
	return out
}

func (c *vsCase) writePacket(b *sb) {
	b.add("vsig")
	b.addn(uint64(c.ver))
	b.addn(uint64(c.idx))
	writeTx(b, c.tx)
	b.addn(uint64(len(c.ins)))
	for _, in := range c.ins {
		b.add(optHex(in.prevTxid))
		b.addn(uint64(in.prevIndex))
		if in.nonwit != nil {
			b.add("1")
			writeTx(b, in.nonwit)
		} else {
			b.add("0")
		}
		if in.wit != nil {
			b.add("1")
			b.add(optHex(in.wit.Script))
			b.add(optHex(in.wit.Value))
		} else {
			b.add("0")
		}
		b.add(optHex(in.redeem))
		b.add(optHex(in.witscript))
		if in.finalSig == nil && in.finalWit == nil {
			b.addn(uint64(in.sighash))
		} else {
			b.add(strconv.FormatUint(uint64(in.sighash), 10) + ":" + optHex(in.finalSig) + ":" + optHex(in.finalWit))
		}
		b.addn(uint64(len(in.sigs)))
		for _, s := range in.sigs {
			if s.present {
				b.add("1")
				b.add(optHex(s.pub))
				b.add(optHex(s.sig))
			} else {
				b.add("0")
			}
		}
	}
	var pubs []string
	for p := range c.privs {
		pubs = append(pubs, p)
	}
	sort.Strings(pubs)
	b.addn(uint64(len(pubs)))
	for _, p := range pubs {
		b.add(optHex([]byte(p)))
		b.add(optHex(c.privs[p]))
	}
}

// attachPrivs records the private key of every partial-signature key made by this generator run
func (c *vsCase) attachPrivs() {
	c.privs = map[string][]byte{}
	for _, in := range c.ins {
		for _, s := range in.sigs {
			if !s.present {
				continue
			}
			pk, err := btcec.ParsePubKey(s.pub)
			if err != nil {
				continue
			}
			for _, k := range vsKeyLog {
				if k.priv.PubKey().IsEqual(pk) {
					c.privs[string(s.pub)] = k.priv.Serialize()
				}
			}
		}
	}
}

var vsAssetBytes = append([]byte{1}, bytes.Repeat([]byte{0x25}, 32)...)

func vsAsset() []byte { return append([]byte{}, vsAssetBytes...) }

// ---------- building the real packets ----------

func (c *vsCase) buildV0() *pset.Pset {
	p := &pset.Pset{UnsignedTx: c.tx}
	for _, in := range c.ins {
		pi := pset.PInput{
			NonWitnessUtxo: in.nonwit,
			WitnessUtxo:    in.wit,
			RedeemScript:   in.redeem,
			WitnessScript:  in.witscript,
			SighashType:    txscript.SigHashType(in.sighash),
			FinalScriptSig:     in.finalSig,
			FinalScriptWitness: in.finalWit,
		}
		for _, s := range in.sigs {
			if !s.present {
				pi.PartialSigs = append(pi.PartialSigs, nil)
				continue
			}
			pi.PartialSigs = append(pi.PartialSigs, &psbt.PartialSig{PubKey: s.pub, Signature: s.sig})
		}
		p.Inputs = append(p.Inputs, pi)
	}
	for range c.tx.Outputs {
		p.Outputs = append(p.Outputs, pset.POutput{})
	}
	return p
}

// buildV2 builds a v2 packet whose UnsignedTx() is c.tx (checked by the caller):
// version/fallback locktime/sequences/outputs come from c.tx, outpoints from the inputs.
func (c *vsCase) buildV2() *psetv2.Pset {
	p := &psetv2.Pset{}
	p.Global.TxVersion = uint32(c.tx.Version)
	p.Global.Version = 2
	lt := c.tx.Locktime
	p.Global.FallbackLocktime = &lt
	for k, in := range c.ins {
		vi := psetv2.Input{
			NonWitnessUtxo:  in.nonwit,
			WitnessUtxo:     in.wit,
			RedeemScript:    in.redeem,
			WitnessScript:   in.witscript,
			PreviousTxid:    in.prevTxid,
			PreviousTxIndex: in.prevIndex,
			SigHashType:     txscript.SigHashType(in.sighash),
			FinalScriptSig:     in.finalSig,
			FinalScriptWitness: in.finalWit,
		}
		if k < len(c.tx.Inputs) {
			vi.Sequence = c.tx.Inputs[k].Sequence
		}
		for _, s := range in.sigs {
			vi.PartialSigs = append(vi.PartialSigs, psetv2.PartialSig{PubKey: s.pub, Signature: s.sig})
		}
		p.Inputs = append(p.Inputs, vi)
	}
	p.Global.InputCount = uint64(len(p.Inputs))
	for _, o := range c.tx.Outputs {
		vo := psetv2.Output{AssetCommitment: o.Asset, ValueCommitment: o.Value, Script: o.Script}
		if len(o.Nonce) > 1 {
			vo.EcdhPubkey = o.Nonce
		}
		p.Outputs = append(p.Outputs, vo)
	}
	p.Global.OutputCount = uint64(len(p.Outputs))
	return p
}

// the transaction the validator hashes: v0 the UnsignedTx field, v2 UnsignedTx()
func (c *vsCase) sigTx() *transaction.Transaction {
	if c.ver == 0 {
		return c.tx
	}
	utx, err := c.buildV2().UnsignedTx()
	if err != nil {
		panic(err)
	}
	return utx
}

// validate runs the implementation: "true", "false", "err", "panic"
func (c *vsCase) validate(idx int) (res string) {
	defer func() {
		if e := recover(); e != nil {
			res = "panic"
		}
	}()
	var ok bool
	var err error
	if c.ver == 0 {
		ok, err = c.buildV0().ValidateInputSignatures(idx)
	} else {
		ok, err = c.buildV2().ValidateInputSignatures(idx)
	}
	if err != nil {
		return "err"
	}
	if ok {
		return "true"
	}
	return "false"
}

func (c *vsCase) validateAll() (res string) {
	defer func() {
		if e := recover(); e != nil {
			res = "panic"
		}
	}()
	var ok bool
	var err error
	if c.ver == 0 {
		ok, err = c.buildV0().ValidateAllSignatures()
	} else {
		ok, err = c.buildV2().ValidateAllSignatures()
	}
	if err != nil {
		return "err"
	}
	if ok {
		return "true"
	}
	return "false"
}

// ---------- histories on one packet object ----------

// vsObj is one live packet object; apply replaces its fields by those of another case with
// the same number of inputs and outputs (fields are replaced, never edited inside a shared slice)
type vsObj struct {
	ver int
	p0  *pset.Pset
	p2  *psetv2.Pset
}

func (c *vsCase) object() *vsObj {
	c = c.clone() // the object owns its storage
	if c.ver == 0 {
		return &vsObj{ver: 0, p0: c.buildV0()}
	}
	return &vsObj{ver: 2, p2: c.buildV2()}
}

func (o *vsObj) apply(d *vsCase) bool {
	if o.ver == 0 {
		q := d.buildV0()
		if len(q.Inputs) != len(o.p0.Inputs) || len(q.UnsignedTx.Inputs) != len(o.p0.UnsignedTx.Inputs) ||
			len(q.UnsignedTx.Outputs) != len(o.p0.UnsignedTx.Outputs) {
			return false
		}
		o.p0.UnsignedTx.Version = q.UnsignedTx.Version
		o.p0.UnsignedTx.Locktime = q.UnsignedTx.Locktime
		for k := range q.UnsignedTx.Inputs {
			o.p0.UnsignedTx.Inputs[k] = q.UnsignedTx.Inputs[k]
		}
		for k := range q.UnsignedTx.Outputs {
			o.p0.UnsignedTx.Outputs[k] = q.UnsignedTx.Outputs[k]
		}
		for k := range q.Inputs {
			o.p0.Inputs[k] = q.Inputs[k]
		}
		return true
	}
	q := d.buildV2()
	if len(q.Inputs) != len(o.p2.Inputs) || len(q.Outputs) != len(o.p2.Outputs) {
		return false
	}
	o.p2.Global = q.Global
	for k := range q.Inputs {
		o.p2.Inputs[k] = q.Inputs[k]
	}
	for k := range q.Outputs {
		o.p2.Outputs[k] = q.Outputs[k]
	}
	return true
}

func (o *vsObj) validate(idx int) (res string) {
	defer func() {
		if e := recover(); e != nil {
			res = "panic"
		}
	}()
	var ok bool
	var err error
	if o.ver == 0 {
		ok, err = o.p0.ValidateInputSignatures(idx)
	} else {
		ok, err = o.p2.ValidateInputSignatures(idx)
	}
	if err != nil {
		return "err"
	}
	if ok {
		return "true"
	}
	return "false"
}

func (o *vsObj) validateAll() (res string) {
	defer func() {
		if e := recover(); e != nil {
			res = "panic"
		}
	}()
	var ok bool
	var err error
	if o.ver == 0 {
		ok, err = o.p0.ValidateAllSignatures()
	} else {
		ok, err = o.p2.ValidateAllSignatures()
	}
	if err != nil {
		return "err"
	}
	if ok {
		return "true"
	}
	return "false"
}

// skipOracle advances over the oracle part of a vsig case (read by the model driver only)
func skipOracle(t *Toks) {
	for _, w := range []int{4, 2, 6, 3} {
		n := t.Int()
		for i := 0; i < n*w; i++ {
			t.Next()
		}
	}
}

// family vhist: `vhist <case A> <case B>` (two vsig cases without the leading word): build the
// packet object of A, validate, replace its fields by those of B, validate again.
// The model is a pure function of the packet: res1 = validate(A), res/all = validate(B).
func readVh(t *Toks) (*vsCase, *vsCase) {
	a := readVs(t)
	skipOracle(t)
	b := readVs(t)
	return a, b
}

func runVh(t *Toks) string {
	a, b := readVh(t)
	o := a.object()
	r1 := o.validate(a.idx)
	a1 := o.validateAll()
	if !o.apply(b) {
		return "res=shape-mismatch"
	}
	return "res1=" + r1 + " all1=" + a1 + " res=" + o.validate(b.idx) + " all=" + o.validateAll()
}

func genVhCases(r *Rng, n int, w *bufio.Writer) {
	for i := 0; i < n; i++ {
		vsKeyLog = nil
		a, spends := genHonest(r)
		var sbb sb
		a.writePacket(&sbb)
		b := parseVs(trimSp(sbb.String()))
		kind := 10 + r.Intn(6) // covered transaction fields
		if r.Chance(30) {
			kind = r.Intn(42)
		}
		corruptKind(r, b, spends, kind)
		same := b.ver == a.ver && b.idx == a.idx && len(b.ins) == len(a.ins) &&
			len(b.tx.Inputs) == len(a.tx.Inputs) && len(b.tx.Outputs) == len(a.tx.Outputs)
		if !same {
			b = parseVs(trimSp(sbb.String()))
			b.tx.Locktime ^= 1 << uint(r.Intn(32))
		}
		a.attachPrivs()
		b.attachPrivs()
		la, lb := a.line(), b.line()
		fmt.Fprintln(w, "vhist "+la[len("vsig "):]+" "+lb[len("vsig "):])
	}
}

// family vsig, generator "vshapes": deterministic misplaced-script shapes (used for the corpus)
func genVsShapes(r *Rng, n int, w *bufio.Writer) {
	count := 0
	for tries := 0; tries < 4000 && count < n; tries++ {
		vsKeyLog = nil
		c, spends := genHonest(r)
		if len(c.ins) != 1 || len(c.ins[0].sigs) != 1 || (c.ins[0].redeem == nil && c.ins[0].witscript == nil) {
			continue
		}
		var sbb sb
		c.writePacket(&sbb)
		d := parseVs(trimSp(sbb.String()))
		if corruptKind(r, d, spends, 38) != "scripts-swapped-resigned" {
			continue
		}
		d.attachPrivs()
		fmt.Fprintln(w, d.line())
		count++
	}
}

// generator "vmulti" (corpus): packets with 4, 5, 8 inputs, honest and with one non-last input corrupted
func genVsMulti(r *Rng, n int, w *bufio.Writer) {
	defer func() { vsForceNin = 0 }()
	for i := 0; i < n; i++ {
		vsKeyLog = nil
		vsForceNin = []int{4, 5, 8}[i%3]
		c, spends := genHonest(r)
		c.idx = (i / 3) % (vsForceNin - 1)
		var b sb
		c.writePacket(&b)
		c = parseVs(trimSp(b.String()))
		if i%2 == 0 {
			corruptKind(r, c, spends, []int{0, 5, 17, 18}[(i/2)%4])
		}
		c.attachPrivs()
		fmt.Fprintln(w, c.line())
	}
}

// generator "vreenc" (corpus): key-hash templates, stated key re-encoded (uncompressed / hybrid), signature untouched
func genVsReenc(r *Rng, n int, w *bufio.Writer) {
	defer func() { vsForceNin, vsForceTpl = 0, -1 }()
	for i := 0; i < n; i++ {
		vsKeyLog = nil
		vsForceNin = 1
		vsForceTpl = []int{tplP2PKH, tplP2WPKH, tplP2SHP2WPKH}[i%3]
		c, _ := genHonest(r)
		s := c.ins[0].sigs[0]
		pk, err := btcec.ParsePubKey(s.pub)
		if err != nil {
			continue
		}
		if len(s.pub) == 33 {
			s.pub = reencodeKey(pk, []int{4, 6}[(i/3)%2])
		} else {
			s.pub = pk.SerializeCompressed()
		}
		c.attachPrivs()
		fmt.Fprintln(w, c.line())
	}
}

// generator "vhashend" (corpus): p2wpkh / p2sh-p2wpkh / p2pkh whose key hash ends in 0xae, 0xac, 0x87,
// documented by the previous transaction, the witness utxo or both; honest, or re-signed with the other algorithm
func genVsHashEnd(r *Rng, n int, w *bufio.Writer) {
	defer func() { vsForceNin, vsForceTpl, vsForceHashEnd = 0, -1, 0 }()
	count := 0
	for tries := 0; tries < 50*n && count < n; tries++ {
		vsKeyLog = nil
		vsForceNin = 1
		vsForceTpl = []int{tplP2WPKH, tplP2SHP2WPKH, tplP2WPKH, tplP2PKH}[count%4]
		vsForceHashEnd = []byte{0xae, 0xae, 0xac, 0x87}[(count/4)%4]
		c, spends := genHonest(r)
		in, sp := c.ins[0], spends[0]
		wantNonwit := (count/2)%2 == 0
		if sp.algo == 1 && wantNonwit != (in.nonwit != nil) {
			continue
		}
		if count%2 == 0 {
			// the signature is made with the other algorithm over the script the validator classifies
			script := sp.spk
			if in.redeem != nil {
				script = in.redeem
			}
			ht := in.sigs[0].sig[len(in.sigs[0].sig)-1]
			if sp.algo == 1 {
				c.resign(0, 0, sp.keys[0], 0, script, nil, ht)
			} else {
				c.resign(0, 0, sp.keys[0], 1, script, sp.amount, ht)
			}
		}
		c.attachPrivs()
		fmt.Fprintln(w, c.line())
		count++
	}
}

func runVs(t *Toks) string {
	c := readVs(t)
	if c.ver == 2 {
		utx, err := c.buildV2().UnsignedTx()
		if err != nil || dumpTx(utx) != dumpTx(c.tx) {
			return "res=rebuild-mismatch"
		}
	}
	return "res=" + c.validate(c.idx) + " all=" + c.validateAll()
}

// ---------- scripts ----------

func pushData(d []byte) []byte {
	b := txscript.NewScriptBuilder()
	b.AddData(d)
	s, err := b.Script()
	if err != nil {
		panic(err)
	}
	return s
}

func p2pkhScript(h []byte) []byte {
	return append(append([]byte{0x76, 0xa9, 0x14}, h...), 0x88, 0xac)
}
func p2shScript(h []byte) []byte  { return append(append([]byte{0xa9, 0x14}, h...), 0x87) }
func p2wpkhScript(h []byte) []byte { return append([]byte{0x00, 0x14}, h...) }
func p2wshScript(h []byte) []byte  { return append([]byte{0x00, 0x20}, h...) }

func multisigScript(m int, pubs [][]byte) []byte {
	s := []byte{byte(0x50 + m)}
	for _, p := range pubs {
		s = append(s, pushData(p)...)
	}
	s = append(s, byte(0x50+len(pubs)), 0xae)
	return s
}

func sha256b(b []byte) []byte {
	h := sha256.Sum256(b)
	return h[:]
}

// ---------- keys ----------

type vsKey struct {
	priv *btcec.PrivateKey
	pub  []byte // serialization placed in the partial signature
}

func genKey(r *Rng) *vsKey {
	for {
		priv, _ := btcec.PrivKeyFromBytes(r.Bytes(32))
		if priv.Key.IsZero() {
			continue
		}
		k := &vsKey{priv: priv, pub: priv.PubKey().SerializeCompressed()}
		vsKeyLog = append(vsKeyLog, k)
		return k
	}
}

// reencodeKey: the same point as 65-byte uncompressed (form 4) or hybrid (form 6: prefix 06/07 by the parity of y)
func reencodeKey(pk *btcec.PublicKey, form int) []byte {
	u := pk.SerializeUncompressed()
	if form == 6 {
		u[0] = 6 | (u[64] & 1)
	}
	return u
}

// ---------- digests ----------

func vsDigest(tx *transaction.Transaction, algo int, idx int, script, amount []byte, ht byte) (d []byte, ok bool) {
	defer func() {
		if e := recover(); e != nil {
			d, ok = nil, false
		}
	}()
	if algo == 0 {
		h, err := tx.HashForSignature(idx, script, txscript.SigHashType(ht))
		if err != nil {
			return nil, false
		}
		return h[:], true
	}
	h := tx.HashForWitnessV0(idx, script, amount, txscript.SigHashType(ht))
	return h[:], true
}

func signDigest(k *vsKey, d []byte, ht byte) []byte {
	return append(ecdsa.Sign(k.priv, d).Serialize(), ht)
}

// ---------- templates ----------

const (
	tplP2PKH = iota
	tplP2SHMulti
	tplP2WPKH
	tplP2SHP2WPKH
	tplP2WSH
	tplP2SHP2WSH
	tplBareMulti
	tplP2PK
	nTemplates
)

// vsSpend describes how one honest input is spent
type vsSpend struct {
	tpl     int
	keys    []*vsKey // signers (all occur in the script)
	spk     []byte   // spent output script
	redeem  []byte
	wscript []byte
	amount  []byte
	// what an honest signer hashes
	algo int
	code []byte
}

func genSpend(r *Rng, tpl int) *vsSpend {
	sp := &vsSpend{tpl: tpl}
	nk := 1
	multi := tpl == tplP2SHMulti || tpl == tplP2WSH || tpl == tplP2SHP2WSH || tpl == tplBareMulti
	if multi {
		nk = r.Pick(1, 2, 2, 3)
	}
	var pubs [][]byte
	for i := 0; i < nk; i++ {
		k := genKey(r)
		// key-hash templates: sometimes a key whose HASH160 ends in an opcode byte that a script
		// classifier might look at (OP_CHECKMULTISIG, OP_CHECKSIG, OP_EQUAL), so that the spent
		// script / witness program ends in that byte
		if (tpl == tplP2PKH || tpl == tplP2WPKH || tpl == tplP2SHP2WPKH) && (r.Chance(25) || vsForceHashEnd != 0) {
			want := byte(r.Pick(0xae, 0xae, 0xac, 0x87))
			if vsForceHashEnd != 0 {
				want = vsForceHashEnd
			}
			for tries := 0; tries < 20000; tries++ {
				h := payment.Hash160(k.pub)
				if h[19] == want {
					break
				}
				k = genKey(r)
			}
		}
		if (multi || tpl == tplP2PK || tpl == tplP2PKH) && r.Chance(15) {
			k.pub = k.priv.PubKey().SerializeUncompressed()
		}
		sp.keys = append(sp.keys, k)
		pubs = append(pubs, k.priv.PubKey().SerializeCompressed())
	}
	sort.Slice(sp.keys, func(i, j int) bool { return bytes.Compare(sp.keys[i].pub, sp.keys[j].pub) < 0 })
	sp.amount = append([]byte{1}, r.Bytes(8)...)
	if r.Chance(25) {
		sp.amount = append([]byte{byte(r.Pick(8, 9))}, r.Bytes(32)...)
	}
	ms := multisigScript(r.Intn(nk)+1, pubs)
	switch tpl {
	case tplP2PKH:
		sp.spk = p2pkhScript(payment.Hash160(sp.keys[0].pub))
		sp.algo, sp.code = 0, sp.spk
	case tplP2PK:
		sp.spk = append(pushData(pubs[0]), 0xac)
		sp.algo, sp.code = 0, sp.spk
	case tplBareMulti:
		sp.spk = ms
		sp.algo, sp.code = 0, sp.spk
	case tplP2SHMulti:
		sp.redeem = ms
		sp.spk = p2shScript(payment.Hash160(ms))
		sp.algo, sp.code = 0, ms
	case tplP2WPKH:
		h := payment.Hash160(sp.keys[0].pub)
		sp.spk = p2wpkhScript(h)
		sp.algo, sp.code = 1, p2pkhScript(h)
	case tplP2SHP2WPKH:
		h := payment.Hash160(sp.keys[0].pub)
		sp.redeem = p2wpkhScript(h)
		sp.spk = p2shScript(payment.Hash160(sp.redeem))
		sp.algo, sp.code = 1, p2pkhScript(h)
	case tplP2WSH:
		sp.wscript = ms
		sp.spk = p2wshScript(sha256b(ms))
		sp.algo, sp.code = 1, ms
	case tplP2SHP2WSH:
		sp.wscript = ms
		sp.redeem = p2wshScript(sha256b(ms))
		sp.spk = p2shScript(payment.Hash160(sp.redeem))
		sp.algo, sp.code = 1, ms
	}
	return sp
}

func vsOut(r *Rng, script, value []byte) *transaction.TxOutput {
	return &transaction.TxOutput{Asset: vsAsset(), Value: value, Script: script, Nonce: []byte{0}}
}

func genSimpleOut(r *Rng) *transaction.TxOutput {
	v := append([]byte{1}, r.Bytes(8)...)
	return vsOut(r, r.Bytes(r.Pick(0, 22, 23, 25, 34)), v)
}

// genPrevTx builds a previous transaction whose output `at` is (script, value)
func genPrevTx(r *Rng, nout, at int, script, value []byte) *transaction.Transaction {
	tx := &transaction.Transaction{Version: 2, Locktime: uint32(r.U64())}
	in := &transaction.TxInput{Hash: r.Bytes(32), Index: uint32(r.Intn(3)), Sequence: 0xffffffff, Script: r.Bytes(r.Pick(0, 0, 23, 72))}
	tx.Inputs = append(tx.Inputs, in)
	for k := 0; k < nout; k++ {
		if k == at {
			tx.Outputs = append(tx.Outputs, vsOut(r, script, value))
		} else {
			tx.Outputs = append(tx.Outputs, genSimpleOut(r))
		}
	}
	return tx
}

var vsHashTypes = []byte{1, 1, 1, 2, 3, 0x81, 0x82, 0x83, 0x41, 0x43, 0xc1, 0xc2, 0xc3}

// genHonest builds a packet in which every input is honestly signed.
// utxoForm: 0 = non-witness only, 1 = witness only, 2 = both.
// vsForceNin / vsForceTpl pin the number of inputs / the template (corpus generators only)
var vsForceNin, vsForceTpl = 0, -1

// vsForceHashEnd pins the last byte of the key hash of key-hash templates (corpus generators only)
var vsForceHashEnd byte

func genHonest(r *Rng) (*vsCase, []*vsSpend) {
	c := &vsCase{ver: r.Pick(0, 2)}
	nin := r.Pick(1, 1, 2, 2, 3)
	if r.Chance(8) {
		nin = r.Pick(4, 4, 5, 8) // packets large enough for any batched / concurrent validation path
	}
	if vsForceNin > 0 {
		nin = vsForceNin
	}
	c.idx = r.Intn(nin)
	if nin >= 4 && r.Chance(70) {
		c.idx = r.Intn(nin - 1) // the input that gets corrupted is mostly not the last one
	}
	c.tx = &transaction.Transaction{Version: int32(r.Pick(2, 2, 1, 3)), Locktime: uint32(r.U64())}
	if c.ver == 2 && c.tx.Version < 2 {
		c.tx.Version = 2
	}
	var spends []*vsSpend
	for k := 0; k < nin; k++ {
		tpl := r.Intn(nTemplates)
		if vsForceTpl >= 0 {
			tpl = vsForceTpl
		}
		sp := genSpend(r, tpl)
		spends = append(spends, sp)
		in := &vsIn{}
		segwit := sp.algo == 1
		form := 0
		if segwit {
			form = r.Pick(0, 1, 1, 2, 2)
		}
		nout := r.Intn(3) + 1
		at := r.Intn(nout)
		prev := genPrevTx(r, nout, at, sp.spk, sp.amount)
		h := prev.TxHash()
		in.prevTxid = h.CloneBytes()
		in.prevIndex = uint32(at)
		if form == 0 || form == 2 {
			in.nonwit = prev
		}
		if form == 1 || form == 2 {
			in.wit = vsOut(r, append([]byte{}, sp.spk...), append([]byte{}, sp.amount...))
		}
		if sp.redeem != nil {
			in.redeem = append([]byte{}, sp.redeem...)
		}
		if sp.wscript != nil {
			in.witscript = append([]byte{}, sp.wscript...)
		}
		seq := uint32(r.U64())
		if seq == 0 || r.Chance(30) {
			seq = 0xffffffff
		}
		c.tx.Inputs = append(c.tx.Inputs, &transaction.TxInput{Hash: append([]byte{}, in.prevTxid...), Index: in.prevIndex, Sequence: seq})
		c.ins = append(c.ins, in)
	}
	for k := r.Intn(3) + 1; k > 0; k-- {
		c.tx.Outputs = append(c.tx.Outputs, genSimpleOut(r))
	}
	// sign
	stx := c.sigTx()
	for k, sp := range spends {
		nsig := len(sp.keys)
		if nsig > 1 && r.Chance(40) {
			nsig = r.Intn(nsig) + 1
		}
		for j := 0; j < nsig; j++ {
			ht := vsHashTypes[r.Intn(len(vsHashTypes))]
			d, _ := vsDigest(stx, sp.algo, k, sp.code, sp.amount, ht)
			c.ins[k].sigs = append(c.ins[k].sigs, &vsSig{present: true, pub: sp.keys[j].pub, sig: signDigest(sp.keys[j], d, ht)})
			// the declared sighash type of the input: absent, the one used, or another one
			switch r.Intn(4) {
			case 0:
				c.ins[k].sighash = uint32(ht)
			case 1:
				c.ins[k].sighash = uint32(vsHashTypes[r.Intn(len(vsHashTypes))])
			}
		}
	}
	return c, spends
}

// ---------- corruptions (single-field changes of an honest packet) ----------

func flipBit(b []byte, r *Rng) []byte {
	c := append([]byte{}, b...)
	if len(c) == 0 {
		return c
	}
	k := r.Intn(len(c) * 8)
	c[k/8] ^= 1 << uint(k%8)
	return c
}

// candidates returns the (algo, script, amount) combinations the validator could hash for input k
func (c *vsCase) candidates(k int) (scripts [][]byte, amounts [][]byte) {
	in := c.ins[k]
	add := func(s []byte) {
		for _, x := range scripts {
			if bytes.Equal(x, s) {
				return
			}
		}
		scripts = append(scripts, append([]byte{}, s...))
	}
	addA := func(a []byte) {
		for _, x := range amounts {
			if bytes.Equal(x, a) {
				return
			}
		}
		amounts = append(amounts, append([]byte{}, a...))
	}
	if in.redeem != nil {
		add(in.redeem)
	}
	add(in.witscript) // nil => empty
	if in.nonwit != nil {
		pidx := in.prevIndex
		if c.ver == 0 && k < len(c.tx.Inputs) {
			pidx = c.tx.Inputs[k].Index
		}
		if int64(pidx) < int64(len(in.nonwit.Outputs)) {
			o := in.nonwit.Outputs[pidx]
			add(o.Script)
			addA(o.Value)
		}
	}
	if in.wit != nil {
		add(in.wit.Script)
		addA(in.wit.Value)
	}
	for _, s := range append([][]byte{}, scripts...) {
		if len(s) >= 2 && s[0] == 0 {
			h := s[2:]
			add(append(append([]byte{0x76, 0xa9, byte(len(h))}, h...), 0x88, 0xac))
		}
	}
	return
}

// resign replaces signature j of input k by a signature of key `key` over the given candidate
func (c *vsCase) resign(k, j int, key *vsKey, algo int, script, amount []byte, ht byte) bool {
	d, ok := vsDigest(c.sigTx(), algo, k, script, amount, ht)
	if !ok {
		return false
	}
	c.ins[k].sigs[j].sig = signDigest(key, d, ht)
	return true
}

// corrupt applies one corruption to the input c.idx (or to the packet); returns its name
func corrupt(r *Rng, c *vsCase, spends []*vsSpend) string {
	return corruptKind(r, c, spends, r.Intn(43))
}

func corruptKind(r *Rng, c *vsCase, spends []*vsSpend, kind int) (name string) {
	defer func() {
		if e := recover(); e != nil {
			name = "none"
		}
	}()
	k := c.idx
	if k >= len(c.ins) {
		return "none"
	}
	in := c.ins[k]
	sp := spends[k]
	pickSig := func() *vsSig {
		if len(in.sigs) == 0 {
			return nil
		}
		return in.sigs[r.Intn(len(in.sigs))]
	}
	prevOut := func() *transaction.TxOutput {
		if in.nonwit == nil {
			return nil
		}
		if int(in.prevIndex) < len(in.nonwit.Outputs) {
			return in.nonwit.Outputs[in.prevIndex]
		}
		return nil
	}
	setOutpointHash := func(h []byte) {
		in.prevTxid = h
		if k < len(c.tx.Inputs) {
			c.tx.Inputs[k].Hash = append([]byte{}, h...)
		}
	}
	switch kind {
	case 42:
		// the same key a second time (byte-identical entry, after the genuine one) with a signature that does not
		// verify: every partial signature of the input must be checked, not one per key (seeded change C10-q)
		sg := pickSig()
		if sg == nil || !sg.present || len(sg.sig) < 12 || len(sg.pub) == 0 {
			return "none"
		}
		bad := append([]byte{}, sg.sig...)
		bad[len(bad)-3] ^= 0x01
		in.sigs = append(in.sigs, &vsSig{present: true, pub: append([]byte{}, sg.pub...), sig: bad})
		return "dup-key-bad-second"
	case 38, 39, 40, 41:
		// the redeem / witness script sits in the other field and the signatures are made
		// over what that placement suggests (redeem script: legacy hash, witness script: segwit hash)
		if in.redeem == nil && in.witscript == nil {
			return "none"
		}
		in.redeem, in.witscript = in.witscript, in.redeem
		for j, sg := range in.sigs {
			if !sg.present || len(sg.sig) == 0 || j >= len(sp.keys) {
				continue
			}
			ht := sg.sig[len(sg.sig)-1]
			if in.redeem != nil && (in.witscript == nil || r.Bool()) {
				c.resign(k, j, sp.keys[j], 0, in.redeem, nil, ht)
			} else {
				c.resign(k, j, sp.keys[j], 1, in.witscript, sp.amount, ht)
			}
		}
		return "scripts-swapped-resigned"
	case 36, 37:
		// the script pushes a truncated / x-only form of the key, never the key itself or its hash
		nk := genKey(r)
		part := nk.pub[1:]
		if r.Bool() {
			part = nk.pub[:32]
		}
		ws := append(pushData(part), 0xac)
		in.witscript = ws
		in.redeem = nil
		in.nonwit = nil
		in.wit = vsOut(r, p2wshScript(sha256b(ws)), sp.amount)
		in.sigs = []*vsSig{{present: true, pub: nk.pub, sig: []byte{1}}}
		c.resign(k, 0, nk, 1, ws, sp.amount, 1)
		return "key-pushed-partially"
	case 34, 35:
		// signature made for the input's declared sighash type, but carrying another hash-type byte
		j := r.Intn(len(in.sigs))
		sg := in.sigs[j]
		ht := sg.sig[len(sg.sig)-1]
		decl := vsHashTypes[r.Intn(len(vsHashTypes))]
		for decl == ht {
			decl = vsHashTypes[r.Intn(len(vsHashTypes))]
		}
		in.sighash = uint32(decl)
		c.resign(k, j, sp.keys[j], sp.algo, sp.code, sp.amount, decl)
		sg.sig[len(sg.sig)-1] = ht
		return "signed-for-declared-type-other-byte"
	case 0:
		s := pickSig()
		s.sig = flipBit(s.sig, r)
		return "sig-flip"
	case 1:
		s := pickSig()
		s.sig[len(s.sig)-1] ^= 1 << uint(r.Intn(8))
		return "sig-hashtype-flip"
	case 2:
		s := pickSig()
		s.sig = []byte{}
		if r.Bool() {
			s.sig = nil
		}
		return "sig-empty"
	case 3:
		s := pickSig()
		s.sig = r.Bytes(r.Pick(1, 2, 8, 9, 71))
		return "sig-junk"
	case 4:
		s := pickSig()
		s.sig = s.sig[:len(s.sig)-1]
		return "sig-no-hashtype"
	case 5:
		s := pickSig()
		s.pub = genKey(r).pub
		return "key-other"
	case 6:
		// a valid signature by a key that does not occur in the script
		j := r.Intn(len(in.sigs))
		nk := genKey(r)
		in.sigs[j].pub = nk.pub
		ht := in.sigs[j].sig[len(in.sigs[j].sig)-1]
		c.resign(k, j, nk, sp.algo, sp.code, sp.amount, ht)
		return "key-not-in-script-valid-sig"
	case 7:
		s := pickSig()
		s.pub = flipBit(s.pub, r)
		return "key-flip"
	case 8:
		s := pickSig()
		s.pub = [][]byte{nil, {}, {2}, r.Bytes(33), r.Bytes(65)}[r.Intn(5)]
		return "key-bad"
	case 9:
		s := pickSig()
		pk, err := btcec.ParsePubKey(s.pub)
		if err == nil {
			if len(s.pub) == 33 {
				s.pub = reencodeKey(pk, r.Pick(4, 4, 6))
			} else {
				s.pub = pk.SerializeCompressed()
			}
		}
		return "key-other-form"
	case 10:
		c.tx.Locktime ^= 1 << uint(r.Intn(32))
		return "tx-locktime"
	case 11:
		c.tx.Version ^= 1 << uint(r.Intn(31))
		if c.ver == 2 && c.tx.Version < 2 {
			c.tx.Version = 5
		}
		return "tx-version"
	case 12:
		if k < len(c.tx.Inputs) {
			c.tx.Inputs[k].Sequence ^= 1 << uint(r.Intn(32))
			if c.tx.Inputs[k].Sequence == 0 {
				c.tx.Inputs[k].Sequence = 7
			}
		}
		return "tx-sequence"
	case 13:
		o := c.tx.Outputs[r.Intn(len(c.tx.Outputs))]
		switch r.Intn(3) {
		case 0:
			o.Value = flipBit(o.Value, r)
			o.Value[0] = 1
		case 1:
			o.Script = flipBit(append(o.Script, 0x51), r)
		default:
			o.Asset = flipBit(o.Asset, r)
			o.Asset[0] = 1
		}
		return "tx-output"
	case 14:
		setOutpointHash(flipBit(in.prevTxid, r))
		return "outpoint-hash-flip"
	case 15:
		ni := in.prevIndex ^ (1 << uint(r.Intn(3)))
		in.prevIndex = ni
		c.tx.Inputs[k].Index = ni
		return "outpoint-index-flip"
	case 16:
		if o := prevOut(); o != nil {
			o.Script = flipBit(o.Script, r)
		} else {
			in.wit.Script = flipBit(in.wit.Script, r)
		}
		return "spent-script-flip"
	case 17:
		if o := prevOut(); o != nil && r.Bool() {
			o.Value = flipBit(o.Value, r)
		} else if in.wit != nil {
			in.wit.Value = flipBit(in.wit.Value, r)
		} else if o != nil {
			o.Value = flipBit(o.Value, r)
		}
		return "spent-amount-flip"
	case 18, 19:
		// substitute the previous transaction by another one paying the same output at the same index
		if in.nonwit != nil {
			in.nonwit.Locktime = uint32(r.U64())
			return "prevtx-substituted"
		}
		return "none"
	case 20:
		// both records present, amounts disagree, signature over the witness-utxo amount
		if in.nonwit != nil && in.wit != nil {
			in.wit.Value = flipBit(in.wit.Value, r)
			for j := range in.sigs {
				ht := in.sigs[j].sig[len(in.sigs[j].sig)-1]
				c.resign(k, j, sp.keys[j], sp.algo, sp.code, in.wit.Value, ht)
			}
			return "both-utxos-disagree-resigned"
		}
		return "none"
	case 21:
		if in.nonwit != nil && in.wit != nil {
			in.wit = nil
			return "witness-utxo-removed"
		}
		if in.wit != nil && sp.algo == 1 {
			// keep only the previous transaction
			prev := genPrevTx(r, int(in.prevIndex)+1, int(in.prevIndex), sp.spk, sp.amount)
			h := prev.TxHash()
			setOutpointHash(h.CloneBytes())
			in.nonwit, in.wit = prev, nil
			stx := c.sigTx()
			for j := range in.sigs {
				ht := in.sigs[j].sig[len(in.sigs[j].sig)-1]
				d, _ := vsDigest(stx, sp.algo, k, sp.code, sp.amount, ht)
				in.sigs[j].sig = signDigest(sp.keys[j], d, ht)
			}
			return "segwit-with-nonwitness-utxo-only"
		}
		return "none"
	case 22:
		in.nonwit, in.wit = nil, nil
		return "no-utxo"
	case 23:
		in.redeem = [][]byte{nil, {}, {0}, r.Bytes(22)}[r.Intn(4)]
		return "redeem-replaced"
	case 24:
		in.witscript = [][]byte{nil, {}, {0x4c}, r.Bytes(30)}[r.Intn(4)]
		return "witscript-replaced"
	case 25:
		// a redeem script that is not the one committed to by the spent script, honestly signed for
		nk := genKey(r)
		in.redeem = p2pkhScript(payment.Hash160(nk.pub))
		if r.Bool() {
			in.redeem = append(pushData(nk.pub), 0xac)
		}
		in.sigs = []*vsSig{{present: true, pub: nk.pub, sig: []byte{1}}}
		if in.nonwit == nil {
			prev := genPrevTx(r, int(in.prevIndex)+1, int(in.prevIndex), sp.spk, sp.amount)
			h := prev.TxHash()
			setOutpointHash(h.CloneBytes())
			in.nonwit = prev
		}
		c.resign(k, 0, nk, 0, in.redeem, nil, 1)
		return "redeem-untied-resigned"
	case 26:
		// a witness script that is not the one committed to, honestly signed for
		nk := genKey(r)
		ws := multisigScript(1, [][]byte{nk.pub})
		in.witscript = ws
		in.redeem = nil
		amount := sp.amount
		if o := prevOut(); o != nil {
			o.Script = p2wshScript(r.Bytes(32))
			h := in.nonwit.TxHash()
			setOutpointHash(h.CloneBytes())
			if in.wit != nil {
				in.wit.Script = append([]byte{}, o.Script...)
			}
			amount = o.Value
		} else {
			in.wit.Script = p2wshScript(r.Bytes(32))
			amount = in.wit.Value
		}
		in.sigs = []*vsSig{{present: true, pub: nk.pub, sig: []byte{1}}}
		ht := vsHashTypes[r.Intn(len(vsHashTypes))]
		c.resign(k, 0, nk, 1, ws, amount, ht)
		return "witscript-untied-resigned"
	case 27:
		// nibble-shifted key: the hex of the key occurs in the disassembly at an odd offset only
		nk := genKey(r)
		shifted := make([]byte, 34)
		for i := 0; i < 33; i++ {
			shifted[i] |= nk.pub[i] >> 4
			shifted[i+1] |= nk.pub[i] << 4
		}
		shifted[0] |= 0xa0
		ws := append(pushData(shifted), 0xac)
		in.witscript = ws
		in.redeem = nil
		in.nonwit = nil
		in.wit = vsOut(r, p2wshScript(sha256b(ws)), sp.amount)
		in.sigs = []*vsSig{{present: true, pub: nk.pub, sig: []byte{1}}}
		c.resign(k, 0, nk, 1, ws, sp.amount, 1)
		return "key-nibble-shifted"
	case 28:
		if o := prevOut(); o != nil && in.redeem == nil {
			o.Script = [][]byte{{}, nil, {0}, {0, 0x14}, {0x51, 0x20}}[r.Intn(5)]
			h := in.nonwit.TxHash()
			setOutpointHash(h.CloneBytes())
		} else if in.wit != nil && in.redeem == nil {
			in.wit.Script = [][]byte{{}, nil, {0}, {0, 0x14}, append([]byte{0x51, 0x20}, r.Bytes(32)...)}[r.Intn(5)]
		}
		return "spent-script-degenerate"
	case 29:
		c.idx = len(c.ins) + r.Intn(2)
		return "index-out-of-range"
	case 30:
		if c.ver == 0 {
			c.tx.Inputs = c.tx.Inputs[:len(c.tx.Inputs)-1]
			return "tx-inputs-short"
		}
		return "none"
	case 31:
		if c.ver == 0 {
			in.sigs[r.Intn(len(in.sigs))] = &vsSig{}
			return "sig-nil-element"
		}
		return "none"
	case 32:
		in.sigs = nil
		return "no-sigs"
	default:
		// re-sign every signature over a random candidate the validator could select
		scripts, amounts := c.candidates(k)
		for j, s := range in.sigs {
			if !s.present || len(s.sig) == 0 || j >= len(sp.keys) {
				continue
			}
			ht := s.sig[len(s.sig)-1]
			sc := scripts[r.Intn(len(scripts))]
			var am []byte
			if len(amounts) > 0 {
				am = amounts[r.Intn(len(amounts))]
			}
			c.resign(k, j, sp.keys[j], r.Intn(2), sc, am, ht)
		}
		return "resigned-random-candidate"
	}
}

// ---------- oracle part of the case line ----------

func (c *vsCase) writeOracle(b *sb) {
	type keyInfo struct {
		pub  []byte
		ok   bool
		comp []byte
	}
	var keys []keyInfo
	seenK := map[string]bool{}
	type derInfo struct {
		der []byte
		ok  bool
	}
	var ders []derInfo
	seenD := map[string]bool{}
	for _, in := range c.ins {
		for _, s := range in.sigs {
			if !s.present {
				continue
			}
			if !seenK[string(s.pub)] {
				seenK[string(s.pub)] = true
				ki := keyInfo{pub: s.pub}
				if pk, err := btcec.ParsePubKey(s.pub); err == nil {
					ki.ok = true
					ki.comp = pk.SerializeCompressed()
				}
				keys = append(keys, ki)
			}
			if len(s.sig) > 0 {
				der := s.sig[:len(s.sig)-1]
				if !seenD[string(der)] {
					seenD[string(der)] = true
					_, err := ecdsa.ParseDERSignature(der)
					ders = append(ders, derInfo{der, err == nil})
				}
			}
		}
	}
	b.addn(uint64(len(keys)))
	for _, k := range keys {
		b.addh(k.pub)
		b.add(b2s(k.ok))
		b.addh(k.comp)
		b.addh(payment.Hash160(k.pub))
	}
	b.addn(uint64(len(ders)))
	for _, d := range ders {
		b.addh(d.der)
		b.add(b2s(d.ok))
	}
	// digests
	type dig struct {
		algo   int
		k      int
		script []byte
		amount []byte
		ht     byte
		d      []byte
	}
	var digs []dig
	stx := c.sigTx()
	for k, in := range c.ins {
		if k >= len(stx.Inputs) {
			continue
		}
		var hts []byte
		for _, s := range in.sigs {
			if s.present && len(s.sig) > 0 {
				ht := s.sig[len(s.sig)-1]
				if bytes.IndexByte(hts, ht) < 0 {
					hts = append(hts, ht)
				}
			}
		}
		scripts, amounts := c.candidates(k)
		for _, ht := range hts {
			for _, sc := range scripts {
				if d, ok := vsDigest(stx, 0, k, sc, nil, ht); ok {
					digs = append(digs, dig{0, k, sc, nil, ht, d})
				}
				for _, am := range amounts {
					if d, ok := vsDigest(stx, 1, k, sc, am, ht); ok {
						digs = append(digs, dig{1, k, sc, am, ht, d})
					}
				}
			}
		}
	}
	b.addn(uint64(len(digs)))
	for _, d := range digs {
		b.addn(uint64(d.algo))
		b.addn(uint64(d.k))
		b.addh(d.script)
		b.addh(d.amount)
		b.addn(uint64(d.ht))
		b.addh(d.d)
	}
	// verifying triples
	type ver struct{ comp, d, der []byte }
	var vers []ver
	seenV := map[string]bool{}
	for k, in := range c.ins {
		for _, s := range in.sigs {
			if !s.present || len(s.sig) == 0 {
				continue
			}
			pk, err := btcec.ParsePubKey(s.pub)
			if err != nil {
				continue
			}
			der := s.sig[:len(s.sig)-1]
			psig, err := ecdsa.ParseDERSignature(der)
			if err != nil {
				continue
			}
			for _, d := range digs {
				if d.k != k {
					continue
				}
				key := string(pk.SerializeCompressed()) + "|" + string(d.d) + "|" + string(der)
				if seenV[key] {
					continue
				}
				seenV[key] = true
				if psig.Verify(d.d, pk) {
					vers = append(vers, ver{pk.SerializeCompressed(), d.d, der})
				}
			}
		}
	}
	b.addn(uint64(len(vers)))
	for _, v := range vers {
		b.addh(v.comp)
		b.addh(v.d)
		b.addh(v.der)
	}
}

func (c *vsCase) line() string {
	if c.ver == 2 {
		c.tx = c.sigTx()
	}
	var b sb
	c.writePacket(&b)
	c.writeOracle(&b)
	return trimSp(b.String())
}

func trimSp(s string) string {
	for len(s) > 0 && s[len(s)-1] == ' ' {
		s = s[:len(s)-1]
	}
	return s
}

func genVsCases(r *Rng, n int, w *bufio.Writer) {
	for i := 0; i < n; i++ {
		vsKeyLog = nil
		c, spends := genHonest(r)
		if !r.Chance(30) {
			// work on a deep copy so that shared slices are never aliased
			var b sb
			c.writePacket(&b)
			c = parseVs(trimSp(b.String()))
			corrupt(r, c, spends)
			if r.Chance(15) {
				corrupt(r, c, spends)
			}
		}
		// an input that carries a final script next to its partial signatures (the parsers accept it)
		if r.Chance(12) && c.idx < len(c.ins) {
			setFinalScript(r, c.ins[c.idx])
		} else if r.Chance(4) {
			setFinalScript(r, c.ins[r.Intn(len(c.ins))])
		}
		c.attachPrivs()
		fmt.Fprintln(w, c.line())
	}
}

func setFinalScript(r *Rng, in *vsIn) {
	if r.Bool() {
		in.finalWit = r.Bytes(r.Pick(1, 34, 107))
	} else {
		in.finalSig = r.Bytes(r.Pick(1, 23, 106))
	}
}

// generator "vfinal" (corpus): 1-3 inputs, one input with a final script next to its partial signatures, corrupted or not
func genVsFinal(r *Rng, n int, w *bufio.Writer) {
	defer func() { vsForceNin = 0 }()
	for i := 0; i < n; i++ {
		vsKeyLog = nil
		vsForceNin = 1 + i%3
		c, spends := genHonest(r)
		var b sb
		c.writePacket(&b)
		c = parseVs(trimSp(b.String()))
		if i%4 != 3 {
			corruptKind(r, c, spends, []int{0, 6, 17}[i%4])
		}
		if c.idx < len(c.ins) {
			setFinalScript(r, c.ins[c.idx])
		}
		c.attachPrivs()
		fmt.Fprintln(w, c.line())
	}
}

// ---------- family disasm: txscript.DisasmString ----------

func genDisasmCases(r *Rng, n int, w *bufio.Writer) {
	// every opcode once, then structured random scripts
	for op := 0; op < 256 && op < n; op++ {
		s := []byte{byte(op)}
		if op >= 1 && op <= 75 {
			s = append(s, r.Bytes(op)...)
		}
		fmt.Fprintln(w, "disasm "+hx(s))
	}
	for i := 256; i < n; i++ {
		var s []byte
		for k := r.Intn(8); k > 0; k-- {
			switch r.Intn(8) {
			case 0:
				s = append(s, byte(r.U64()))
			case 1:
				s = append(s, pushData(r.Bytes(r.Pick(0, 1, 20, 32, 33, 65, 75, 76, 80, 255, 256, 300)))...)
			case 2:
				l := r.Intn(4)
				s = append(s, 0x4c, byte(l))
				s = append(s, r.Bytes(l)...)
			case 3:
				l := r.Intn(4)
				s = append(s, 0x4d, byte(l), 0)
				s = append(s, r.Bytes(l)...)
			case 4:
				l := r.Intn(4)
				s = append(s, 0x4e, byte(l), 0, 0, byte(r.Pick(0, 0, 0, 0x80, 1)))
				s = append(s, r.Bytes(l)...)
			case 5:
				s = append(s, byte(r.Pick(0x4c, 0x4d, 0x4e, 0x20, 0x4b)))
			default:
				s = append(s, byte(r.Pick(0x00, 0x51, 0x60, 0x4f, 0x76, 0xa9, 0x87, 0x88, 0xac, 0xae, 0xba, 0xff)))
			}
		}
		fmt.Fprintln(w, "disasm "+hx(s))
	}
}

func runDisasm(t *Toks) string {
	s := t.Hex()
	asm, err := txscript.DisasmString(s)
	if err != nil {
		return "asm=err"
	}
	return "asm=" + hx([]byte(asm))
}

func init() {
	gens["vsig"] = genVsCases
	runs["vsig"] = runVs
	gens["vhist"] = genVhCases
	runs["vhist"] = runVh
	gens["vshapes"] = genVsShapes
	gens["vmulti"] = genVsMulti
	gens["vfinal"] = genVsFinal
	gens["vhashend"] = genVsHashEnd
	gens["vreenc"] = genVsReenc
	gens["disasm"] = genDisasmCases
	runs["disasm"] = runDisasm
}
