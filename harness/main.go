// Command impl runs the go-elements implementation (built from /repo's working
// tree through the replace directive in go.mod) on case lines and prints one
// canonical result line per case, in the same format as the OCaml model driver.
//
//	impl gen <family> <seed> <n>     write n generated case lines to stdout
//	impl run                          read case lines on stdin, print result lines
//	impl oracle <prop> <seed> <n>     implementation-side property search (S)
package main

import (
	"bufio"
	"fmt"
	"os"
	"strconv"
	"strings"
)

type genFn func(r *Rng, n int, w *bufio.Writer)
type runFn func(t *Toks) string
type oracleFn func(r *Rng, n int, w *bufio.Writer) int
type checkFn func(t *Toks) string

var gens = map[string]genFn{}
var runs = map[string]runFn{}
var oracles = map[string]oracleFn{}
var checks = map[string]checkFn{}

func main() {
	if len(os.Args) < 2 {
		fmt.Fprintln(os.Stderr, "usage: impl gen|run|oracle ...")
		os.Exit(2)
	}
	out := bufio.NewWriterSize(os.Stdout, 1<<20)
	defer out.Flush()
	switch os.Args[1] {
	case "gen":
		seed, _ := strconv.ParseUint(os.Args[3], 10, 64)
		n, _ := strconv.Atoi(os.Args[4])
		g, ok := gens[os.Args[2]]
		if !ok {
			fmt.Fprintln(os.Stderr, "unknown family", os.Args[2])
			os.Exit(2)
		}
		g(NewRng(seed), n, out)
	case "run":
		sc := bufio.NewScanner(os.Stdin)
		sc.Buffer(make([]byte, 1<<20), 1<<28)
		for sc.Scan() {
			line := strings.TrimSpace(sc.Text())
			if line == "" {
				continue
			}
			t := &Toks{l: strings.Split(line, " "), line: line}
			c := t.Next()
			f, ok := runs[c]
			if !ok {
				fmt.Fprintf(out, "unknown-command %s\n", c)
				continue
			}
			fmt.Fprintln(out, safeRun(f, t))
			out.Flush()
		}
	case "check":
		// impl check <prop>: S verdict per case line (OK / SKIP / FAIL site=.. detail=..)
		prop := os.Args[2]
		sc := bufio.NewScanner(os.Stdin)
		sc.Buffer(make([]byte, 1<<20), 1<<28)
		for sc.Scan() {
			line := strings.TrimSpace(sc.Text())
			if line == "" {
				continue
			}
			t := &Toks{l: strings.Split(line, " "), line: line}
			c := t.Next()
			f, ok := checks[prop+"/"+c]
			if !ok {
				fmt.Fprintln(out, "SKIP no-oracle")
				continue
			}
			fmt.Fprintln(out, safeCheck(f, t))
			out.Flush() // a fatal runtime error must be attributable to the case it happened on
		}
	case "oracle":
		seed, _ := strconv.ParseUint(os.Args[3], 10, 64)
		n, _ := strconv.Atoi(os.Args[4])
		f, ok := oracles[os.Args[2]]
		if !ok {
			fmt.Fprintln(os.Stderr, "unknown oracle", os.Args[2])
			os.Exit(2)
		}
		bad := f(NewRng(seed), n, out)
		out.Flush()
		if bad > 0 {
			os.Exit(1)
		}
	default:
		os.Exit(2)
	}
}

func safeCheck(f checkFn, t *Toks) (res string) {
	defer func() {
		if e := recover(); e != nil {
			res = fmt.Sprintf("FAIL site=panic detail=%v", strings.ReplaceAll(fmt.Sprint(e), " ", "_"))
		}
	}()
	return f(t)
}

func safeRun(f runFn, t *Toks) (res string) {
	defer func() {
		if e := recover(); e != nil {
			res = "panic"
		}
	}()
	return f(t)
}
